//! Multi-frame lossless Modular streams (layers / animation / reference frames) and the reference
//! compositor (blend modes, crops, reference slots), from the format definition.

use crate::codestream::*;
use crate::headers::*;
use crate::modmodel::Channel;
use crate::modular::*;
use crate::rng::Rng;

#[derive(Clone, Debug)]
pub struct AnimOpts {
    pub max_frames: usize,
    pub max_dim: u32,
    pub max_extra: usize,
    /// allow multi-group canvases / frames
    pub multi_group: bool,
    pub plain_entropy: bool,
}

impl Default for AnimOpts {
    fn default() -> Self {
        Self { max_frames: 8, max_dim: 48, max_extra: 3, multi_group: false, plain_entropy: true }
    }
}

#[derive(Clone, Debug)]
pub struct AnimFrame {
    pub fh: FrameHeader,
    /// truth samples of this frame (frame-sized), colour then extra
    pub channels: Vec<Channel>,
    pub layout: FrameLayoutInfo,
}

#[derive(Clone, Debug)]
pub struct AnimImage {
    pub bytes: Vec<u8>,
    pub ih: ImageHeader,
    pub frames: Vec<AnimFrame>,
    pub num_color: usize,
    pub desc: String,
}

/// Float planes of the full canvas: planes[c][y * w + x]
#[derive(Clone, Debug)]
pub struct Canvas {
    pub w: usize,
    pub h: usize,
    pub planes: Vec<Vec<f64>>,
    /// bound of the error an f32 evaluation (in any order) may have accumulated per sample
    pub errs: Vec<Vec<f64>>,
}

impl Canvas {
    pub fn zero(w: usize, h: usize, n: usize) -> Self {
        Self { w, h, planes: vec![vec![0.0; w * h]; n], errs: vec![vec![0.0; w * h]; n] }
    }
}

const EPS32: f64 = 5.97e-8;

pub fn depth_scale(bd: &BitDepth) -> f64 {
    match bd {
        BitDepth::Int { bits } => ((1u64 << bits) - 1) as f64,
        BitDepth::Float { .. } => 1.0,
    }
}

fn blend_value(mode: BlendMode, is_alpha_of_info: bool, premultiplied: bool, has_alpha: bool, clamp: bool, old: f64, new: f64, old_a: f64, new_a: f64) -> f64 {
    let cl = |v: f64| if clamp { v.clamp(0.0, 1.0) } else { v };
    match mode {
        BlendMode::Replace => new,
        BlendMode::Add => old + new,
        BlendMode::Mul => old * cl(new),
        BlendMode::Blend => {
            if !has_alpha {
                new
            } else if is_alpha_of_info {
                let n = cl(new);
                old + n * (1.0 - old)
            } else if premultiplied {
                new + old * (1.0 - cl(new_a))
            } else {
                let na = cl(new_a);
                let mixed = 1.0 - (1.0 - na) * (1.0 - old_a);
                if mixed > 0.0 {
                    (na * new + old_a * old * (1.0 - na)) / mixed
                } else {
                    0.0
                }
            }
        }
        BlendMode::MulAdd => {
            if !has_alpha {
                old + new
            } else if is_alpha_of_info {
                old
            } else {
                old + cl(new_a) * new
            }
        }
    }
}

/// Compose all frames; returns the expected canvas of every keyframe (in order).
pub fn compose(img: &AnimImage) -> Vec<Canvas> {
    let ih = &img.ih;
    let (cw, ch) = (ih.size.width as usize, ih.size.height as usize);
    let nch = img.num_color + ih.metadata.ec_info.len();
    let mut slots: Vec<Option<Canvas>> = vec![None; 4];
    let mut out = Vec::new();
    let scales: Vec<f64> = (0..nch)
        .map(|c| if c < img.num_color { depth_scale(&ih.metadata.bit_depth) } else { depth_scale(&ih.metadata.ec_info[c - img.num_color].bit_depth) })
        .collect();
    let has_extra = !ih.metadata.ec_info.is_empty();
    let dbg: Option<(usize, usize)> = std::env::var("JXLGEN_COMPOSE_DEBUG").ok().and_then(|v| {
        let mut it = v.split(',').map(|t| t.parse::<usize>().ok());
        Some((it.next()??, it.next()??))
    });
    for (fi, fr) in img.frames.iter().enumerate() {
        let fh = &fr.fh;
        // frame samples as floats
        let fw = fh.width as usize;
        let fhh = fh.height as usize;
        let fsample = |c: usize, x: usize, y: usize| -> f64 { fr.channels[c].at(x, y) as f64 / scales[c] };
        if fh.frame_type == FrameType::ReferenceOnly {
            // stored as is (full canvas sized here)
            let mut cv = Canvas::zero(fw, fhh, nch);
            for c in 0..nch {
                for y in 0..fhh {
                    for x in 0..fw {
                        cv.planes[c][y * fw + x] = fsample(c, x, y);
                    }
                }
            }
            slots[fh.save_as_reference as usize] = Some(cv);
            continue;
        }
        let mut result = Canvas::zero(cw, ch, nch);
        for c in 0..nch {
            let info = if c < img.num_color { &fh.blending_info } else { &fh.ec_blending_info[c - img.num_color] };
            let uses_alpha = matches!(info.mode, BlendMode::Blend | BlendMode::MulAdd) && has_extra;
            let a_idx = img.num_color + info.alpha_channel as usize;
            let premult = if uses_alpha {
                matches!(ih.metadata.ec_info[info.alpha_channel as usize].ty, EcType::Alpha { associated: true })
            } else {
                false
            };
            let bg = slots[info.source as usize].as_ref();
            for y in 0..ch {
                for x in 0..cw {
                    let old = bg.map_or(0.0, |b| b.planes[c][y * cw + x]);
                    let e_old = bg.map_or(0.0, |b| b.errs[c][y * cw + x]);
                    let fx = x as i64 - fh.x0 as i64;
                    let fy = y as i64 - fh.y0 as i64;
                    let (v, e) = if fx >= 0 && fy >= 0 && (fx as usize) < fw && (fy as usize) < fhh {
                        let (fx, fy) = (fx as usize, fy as usize);
                        let new = fsample(c, fx, fy);
                        let (old_a, e_old_a, new_a) = if uses_alpha {
                            (bg.map_or(0.0, |b| b.planes[a_idx][y * cw + x]), bg.map_or(0.0, |b| b.errs[a_idx][y * cw + x]), fsample(a_idx, fx, fy))
                        } else {
                            (0.0, 0.0, 0.0)
                        };
                        let is_a = uses_alpha && c == a_idx;
                        let f = |o: f64, oa: f64| blend_value(info.mode, is_a, premult, uses_alpha, info.clamp, o, new, oa, new_a);
                        let v = f(old, old_a);
                        // propagated input error (first order, by finite differences) ...
                        let mut e = (f(old + e_old, old_a) - v).abs().max((f(old - e_old, old_a) - v).abs())
                            + (f(old, old_a + e_old_a) - v).abs().max((f(old, old_a - e_old_a) - v).abs());
                        // ... plus rounding of this step: a few ulps of the operands and result,
                        // and for the straight-alpha division the conditioning of 1 - (1-a)(1-b)
                        e += 4.0 * EPS32 * (old.abs() + new.abs() + v.abs() + 1.0);
                        // an unbounded input stays unbounded (f64::max drops the NaN that an infinite
                        // perturbation produces, which would leave a finite, wrong bound)
                        if !e_old.is_finite() || (uses_alpha && !e_old_a.is_finite()) || !e.is_finite() {
                            e = f64::INFINITY;
                        }
                        if info.mode == BlendMode::Blend && uses_alpha && !is_a && !premult {
                            let na = if info.clamp { new_a.clamp(0.0, 1.0) } else { new_a };
                            let mixed = 1.0 - (1.0 - na) * (1.0 - old_a);
                            if mixed > 0.0 {
                                let num_mag = (na * new).abs() + (old_a * old * (1.0 - na)).abs();
                                e += 4.0 * EPS32 * (1.0 + na.abs() + old_a.abs() + (na * old_a).abs()) * num_mag / (mixed * mixed) + 4.0 * EPS32 * num_mag / mixed;
                            }
                            // near mixed == 0 the result flips between 0 and a quotient: no bound
                            if mixed.abs() < 1e-6 {
                                e = f64::INFINITY;
                            }
                        }
                        (v, e)
                    } else {
                        (old, e_old)
                    };
                    if let Some((dx, dy)) = dbg {
                        if (x, y) == (dx, dy) {
                            let inside = fx >= 0 && fy >= 0 && (fx as usize) < fw && (fy as usize) < fhh;
                            eprintln!(
                                "frame {fi} ch {c}: mode {:?} src {} alpha_ch {} clamp {} old {old} new {:?} old_a {:?} new_a {:?} -> {v} err {e} e_old {e_old}",
                                info.mode,
                                info.source,
                                info.alpha_channel,
                                info.clamp,
                                if inside { Some(fsample(c, fx as usize, fy as usize)) } else { None },
                                bg.map(|b| b.planes[a_idx.min(nch - 1)][y * cw + x]),
                                if inside { Some(fsample(a_idx.min(nch - 1), fx as usize, fy as usize)) } else { None },
                            );
                        }
                    }
                    result.planes[c][y * cw + x] = v;
                    result.errs[c][y * cw + x] = e;
                }
            }
        }
        if fh.can_reference() {
            slots[fh.save_as_reference as usize] = Some(result.clone());
        }
        if fh.is_keyframe() {
            out.push(result);
        }
    }
    out
}

/// Generate a random multi-frame image.
pub fn gen_animation(rng: &mut Rng, opts: &AnimOpts) -> Option<AnimImage> {
    let grey = rng.chance(1, 4);
    let depth = *rng.pick(&[BitDepth::Int { bits: 8 }, BitDepth::Int { bits: 8 }, BitDepth::Int { bits: 16 }, BitDepth::Int { bits: 5 }, BitDepth::Int { bits: 12 }]);
    let n_ec = if opts.max_extra == 0 { 0 } else { rng.urange(0, opts.max_extra) };
    let mut ec_info = Vec::new();
    for _ in 0..n_ec {
        let ty = match rng.below(4) {
            0 | 1 => EcType::Alpha { associated: rng.bool() },
            2 => EcType::Depth,
            _ => EcType::SelectionMask,
        };
        let bd = if rng.bool() { depth } else { BitDepth::Int { bits: *rng.pick(&[8u32, 10, 16, 3]) } };
        ec_info.push(ExtraChannelInfo::new(ty, bd, 0, ""));
    }
    let mut md = ImageMetadata::plain(depth, grey, ec_info);
    md.modular_16bit_buffers = false;
    let animated = rng.chance(1, 2);
    if animated {
        md.extra_fields = true;
        md.animation = Some(AnimationHeader { tps_numerator: 10, tps_denominator: 1, num_loops: 0, have_timecodes: rng.chance(1, 4) });
    }
    let dim = |rng: &mut Rng| -> u32 {
        if opts.multi_group && rng.chance(1, 3) {
            rng.u32range(100, opts.max_dim.max(101))
        } else {
            rng.u32range(1, opts.max_dim.min(64))
        }
    };
    let (cw, ch) = (dim(rng), dim(rng));
    let ih = ImageHeader { size: SizeHeader::new(cw, ch), metadata: md };
    let n_frames = rng.urange(1, opts.max_frames);
    let alpha_idx: Vec<u32> = ih.metadata.ec_info.iter().enumerate().filter(|(_, e)| matches!(e.ty, EcType::Alpha { .. })).map(|(i, _)| i as u32).collect();
    let mut out = write_codestream_header(&ih, rng, false, None);
    let mut frames = Vec::new();
    let mut desc = format!("{}x{} {} ec={} frames={} anim={} ", cw, ch, if grey { "grey" } else { "rgb" }, n_ec, n_frames, animated);
    let mut written_slots = [false; 4];
    for fi in 0..n_frames {
        let last = fi + 1 == n_frames;
        let mut fh = FrameHeader::modular(&ih);
        fh.group_size_shift = if opts.multi_group { 0 } else { rng.below(2) as u32 };
        fh.frame_type = if last {
            FrameType::Regular
        } else {
            match rng.below(6) {
                0 => FrameType::ReferenceOnly,
                1 => FrameType::SkipProgressive,
                _ => FrameType::Regular,
            }
        };
        fh.is_last = last;
        if fh.frame_type != FrameType::ReferenceOnly {
            fh.have_crop = rng.chance(1, 2);
            if fh.have_crop {
                let style = rng.below(5);
                match style {
                    0 => {
                        // inside
                        fh.width = rng.u32range(1, cw);
                        fh.height = rng.u32range(1, ch);
                        fh.x0 = rng.range(0, (cw - fh.width) as i64) as i32;
                        fh.y0 = rng.range(0, (ch - fh.height) as i64) as i32;
                    }
                    1 => {
                        // partly outside
                        fh.width = rng.u32range(1, cw + 8);
                        fh.height = rng.u32range(1, ch + 8);
                        fh.x0 = rng.range(-(fh.width as i64) + 1, cw as i64 - 1) as i32;
                        fh.y0 = rng.range(-(fh.height as i64) + 1, ch as i64 - 1) as i32;
                    }
                    2 => {
                        // wholly outside
                        fh.width = rng.u32range(1, 10);
                        fh.height = rng.u32range(1, 10);
                        fh.x0 = if rng.bool() { cw as i32 + rng.below(5) as i32 } else { -(fh.width as i32) - rng.below(5) as i32 };
                        fh.y0 = rng.range(-20, ch as i64 + 20) as i32;
                    }
                    3 => {
                        // larger than the canvas
                        fh.x0 = -(rng.below(6) as i32);
                        fh.y0 = -(rng.below(6) as i32);
                        fh.width = cw + (-fh.x0) as u32 + rng.below(6) as u32;
                        fh.height = ch + (-fh.y0) as u32 + rng.below(6) as u32;
                    }
                    _ => {
                        fh.x0 = 0;
                        fh.y0 = 0;
                        fh.width = cw;
                        fh.height = ch;
                    }
                }
            }
            let pick_source = |rng: &mut Rng| -> u32 {
                // prefer slots that were written, sometimes an empty one
                let w: Vec<u32> = (0..4).filter(|&i| written_slots[i as usize]).collect();
                if !w.is_empty() && rng.chance(4, 5) {
                    *rng.pick(&w)
                } else {
                    rng.below(4) as u32
                }
            };
            let random_bi = |rng: &mut Rng| -> BlendingInfo {
                let mut modes = vec![BlendMode::Replace, BlendMode::Add, BlendMode::Mul];
                if n_ec == 0 || !alpha_idx.is_empty() {
                    modes.push(BlendMode::Blend);
                    modes.push(BlendMode::MulAdd);
                    modes.push(BlendMode::Blend);
                }
                let mode = *rng.pick(&modes);
                let uses_alpha = matches!(mode, BlendMode::Blend | BlendMode::MulAdd);
                BlendingInfo {
                    mode,
                    alpha_channel: if uses_alpha && n_ec > 0 { *rng.pick(&alpha_idx) } else { 0 },
                    clamp: rng.bool(),
                    source: pick_source(rng),
                }
            };
            fh.blending_info = random_bi(rng);
            fh.ec_blending_info = (0..n_ec).map(|_| random_bi(rng)).collect();
            if fh.ec_source_ambiguous(&ih) {
                let main_replace = fh.blending_info.mode == BlendMode::Replace;
                for e in fh.ec_blending_info.iter_mut() {
                    if (e.mode == BlendMode::Replace) != main_replace {
                        e.mode = if main_replace { BlendMode::Replace } else { BlendMode::Add };
                    }
                }
            }
            // canonicalise uncoded fields
            let snapshot = fh.clone();
            let canon = |bi: &mut BlendingInfo| {
                let uses_alpha = matches!(bi.mode, BlendMode::Blend | BlendMode::MulAdd);
                if !(n_ec > 0 && uses_alpha) {
                    bi.alpha_channel = 0;
                }
                if !((n_ec > 0 && uses_alpha) || bi.mode == BlendMode::Mul) {
                    bi.clamp = false;
                }
                if bi.mode == BlendMode::Replace && snapshot.full_frame(&ih) {
                    bi.source = 0;
                }
            };
            canon(&mut fh.blending_info);
            for e in fh.ec_blending_info.iter_mut() {
                canon(e);
            }
            if animated {
                fh.duration = if last { rng.below(3) as u32 } else { *rng.pick(&[0u32, 0, 1, 5]) };
                if ih.metadata.animation.as_ref().unwrap().have_timecodes {
                    fh.timecode = rng.next_u32();
                }
            }
        } else {
            fh.blending_info = BlendingInfo::default();
            fh.ec_blending_info = vec![BlendingInfo::default(); n_ec];
        }
        if !last {
            fh.save_as_reference = rng.below(4) as u32;
        }
        fh.save_before_ct = if fh.save_before_ct_coded(&ih) {
            // without a colour transform both choices store the same samples
            rng.bool()
        } else {
            !fh.frame_type.is_normal()
        };
        if rng.chance(1, 4) {
            fh.name = format!("f{fi}");
        }
        // encode
        let infos = modular_channel_infos(&ih, &fh);
        let layout = group_layout(&fh);
        if layout.num_groups() > 64 {
            return None;
        }
        let bits = depth.bits();
        let max_bits = std::iter::once(bits).chain(ih.metadata.ec_info.iter().map(|e| e.bit_depth.bits())).max().unwrap();
        let hi = (1i64 << max_bits) - 1;
        let mopts = ModularOpts {
            bit_depth: bits,
            // values outside the nominal range exercise clamping and unclamped arithmetic
            range_lo: -(hi / 4) - 2,
            range_hi: hi + hi / 4 + 2,
            sample_lo: 0,
            sample_hi: (1i64 << bits.min(max_bits)) - 1,
            allow_wp: true,
            allow_lz77: false,
            plain_entropy: opts.plain_entropy,
            local_tree_pct: 10,
            local_transform_pct: 0,
            transforms: if rng.chance(1, 3) { None } else { Some(vec![]) },
            max_transforms: 2,
            force_tree: None,
            palette_special: false,
            force_gens: None,
        };
        let enc = encode_modular(rng, &infos, &layout, &mopts)?;
        let sections = modular_frame_sections(&fh, &enc, &plain_lf_global_prefix());
        let fl = write_frame(&mut out, rng, &ih, &fh, sections, false, false);
        if fh.frame_type == FrameType::ReferenceOnly || fh.can_reference() {
            written_slots[fh.save_as_reference as usize] = true;
        }
        desc.push_str(&format!(
            "[{}{} {}x{}@{},{} m={:?} src={} dur={} save={}] ",
            match fh.frame_type { FrameType::Regular => "R", FrameType::ReferenceOnly => "Ref", FrameType::SkipProgressive => "S", FrameType::LfFrame => "LF" },
            if fh.have_crop { "c" } else { "" }, fh.width, fh.height, fh.x0, fh.y0, fh.blending_info.mode, fh.blending_info.source, fh.duration, fh.save_as_reference
        ));
        frames.push(AnimFrame { fh, channels: enc.channels, layout: fl });
    }
    let num_color = if grey { 1 } else { 3 };
    Some(AnimImage { bytes: out, ih, frames, num_color, desc })
}
