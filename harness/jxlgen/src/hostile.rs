//! Hostile input corpus: byte-level mutations of valid streams, and *valid-syntax* streams with
//! adversarial values (re-encoded so entropy-coder checksums hold).

use crate::bits::BitWriter;
use crate::codestream::*;
use crate::headers::*;
use crate::hgen;
use crate::modmodel::*;
use crate::modular::*;
use crate::rng::Rng;

pub fn mutate_bytes(rng: &mut Rng, b: &mut Vec<u8>, other: Option<&[u8]>) -> &'static str {
    if b.is_empty() {
        b.push(rng.next_u32() as u8);
        return "empty";
    }
    match rng.below(8) {
        0 | 1 => {
            for _ in 0..rng.urange(1, 8) {
                let i = rng.below(b.len() as u64) as usize;
                b[i] ^= 1 << rng.below(8);
            }
            "bitflip"
        }
        2 => {
            for _ in 0..rng.urange(1, 6) {
                let i = rng.below(b.len() as u64) as usize;
                b[i] = *rng.pick(&[0u8, 0xff, 0x7f, 0x80, 1]);
            }
            "byteset"
        }
        3 => {
            let n = rng.urange(1, b.len());
            b.truncate(n);
            "truncate"
        }
        4 => {
            let i = rng.below(b.len() as u64) as usize;
            let n = rng.urange(1, 16);
            for _ in 0..n {
                b.insert(i, rng.next_u32() as u8);
            }
            "insert"
        }
        5 => {
            let i = rng.below(b.len() as u64) as usize;
            let n = rng.urange(1, (b.len() - i).min(32));
            b.drain(i..i + n);
            "delete"
        }
        6 => {
            if let Some(o) = other {
                if !o.is_empty() {
                    let i = rng.below(b.len() as u64) as usize;
                    let j = rng.below(o.len() as u64) as usize;
                    b.truncate(i);
                    b.extend_from_slice(&o[j..]);
                    return "splice";
                }
            }
            let i = rng.below(b.len() as u64) as usize;
            b[i] = b[i].wrapping_add(1);
            "increment"
        }
        _ => {
            // early bytes matter most (headers)
            let lim = b.len().min(64);
            for _ in 0..rng.urange(1, 4) {
                let i = rng.below(lim as u64) as usize;
                b[i] = rng.next_u32() as u8;
            }
            "header-bytes"
        }
    }
}

/// Valid-syntax headers with arbitrary (huge) values followed by sections of junk.
pub fn header_hostile(rng: &mut Rng) -> Vec<u8> {
    let opts = hgen::HeaderOpts { allow_icc: false, max_extra: 6 };
    let mut ih = hgen::random_image_header(rng, &opts);
    // no frame can legally follow dim_shift > 6; keep the header parseable for frames
    for e in ih.metadata.ec_info.iter_mut() {
        if e.dim_shift > 6 {
            e.dim_shift = 6;
        }
    }
    ih.metadata.preview = None;
    let mut out = write_codestream_header(&ih, rng, true, None);
    let nframes = rng.urange(1, 3);
    for _ in 0..nframes {
        let fh = hgen::random_frame_header(rng, &ih, 64);
        let mut bw = BitWriter::with_random_selectors(rng.fork());
        fh.write(&mut bw, &ih);
        let n = fh.toc_entries() as usize;
        let sizes: Vec<u32> = (0..n).map(|_| rng.below(40) as u32).collect();
        write_toc(&mut bw, rng, &sizes, None);
        out.extend(bw.finish());
        for s in sizes {
            for _ in 0..s {
                out.push(rng.next_u32() as u8);
            }
        }
        if fh.is_last {
            break;
        }
    }
    out
}

/// Small Modular images whose *values* are adversarial but whose syntax is valid.
pub fn value_hostile_modular(rng: &mut Rng) -> Option<(Vec<u8>, String)> {
    let kind = rng.below(8);
    let grey = rng.bool();
    let (w, h) = (rng.u32range(1, 40), rng.u32range(1, 40));
    let bits = match kind {
        0 | 1 => 31,
        2 => rng.u32range(25, 31),
        _ => *rng.pick(&[1u32, 8, 16, 24, 31]),
    };
    let n_ec = rng.urange(0, 3);
    let ec: Vec<ExtraChannelInfo> = (0..n_ec)
        .map(|_| ExtraChannelInfo::new(if rng.bool() { EcType::Alpha { associated: rng.bool() } } else { EcType::Depth }, BitDepth::Int { bits: *rng.pick(&[1u32, 8, 31]) }, 0, ""))
        .collect();
    let mut md = ImageMetadata::plain(BitDepth::Int { bits }, grey, ec);
    md.modular_16bit_buffers = rng.chance(1, 3); // may be a lie: hostile
    let ih = ImageHeader { size: SizeHeader::new(w, h), metadata: md };
    let mut fh = FrameHeader::modular(&ih);
    fh.group_size_shift = rng.below(4) as u32;
    let infos = modular_channel_infos(&ih, &fh);
    let layout = group_layout(&fh);
    let full = kind != 3;
    let nch = infos.len() as u32;
    let transforms: Option<Vec<Transform>> = match kind {
        0 => Some(vec![Transform::Palette { begin_c: 0, num_c: 1.max(nch.min(3)), nb_colours: rng.u32range(0, 4), nb_deltas: rng.u32range(0, 3), d_pred: rng.below(14) as u32 }]),
        1 => {
            if nch >= 3 {
                Some(vec![Transform::Rct { begin_c: 0, rct_type: rng.below(42) as u32 }])
            } else {
                Some(vec![])
            }
        }
        4 => Some(vec![Transform::Squeeze(vec![]), Transform::Squeeze(vec![])]),
        5 => Some((0..rng.urange(2, 6)).map(|_| Transform::Squeeze(vec![])).collect()),
        _ => None,
    };
    let mopts = ModularOpts {
        bit_depth: bits,
        range_lo: if full { i32::MIN as i64 + 1 } else { -70000 },
        range_hi: if full { i32::MAX as i64 } else { 70000 },
        sample_lo: if rng.bool() { i32::MIN as i64 / 2 } else { 0 },
        sample_hi: if bits >= 31 { i32::MAX as i64 } else { (1i64 << bits) - 1 },
        allow_wp: true,
        allow_lz77: true,
        plain_entropy: false,
        local_tree_pct: 20,
        local_transform_pct: 10,
        transforms,
        max_transforms: 5,
        force_tree: None,
        palette_special: true,
        force_gens: None,
    };
    let enc = encode_modular(rng, &infos, &layout, &mopts)?;
    let mut out = write_codestream_header(&ih, rng, false, None);
    let sections = modular_frame_sections(&fh, &enc, &plain_lf_global_prefix());
    let perm = rng.chance(1, 4);
    write_frame(&mut out, rng, &ih, &fh, sections, perm, false);
    Some((out, format!("value-hostile kind{kind} bits{bits} {}", enc.desc)))
}

/// Modular frame whose global stream has a syntactically valid header (random, unvalidated
/// transforms and tree) followed by random bits.
pub fn modular_header_hostile(rng: &mut Rng) -> Vec<u8> {
    let grey = rng.bool();
    let (w, h) = (rng.u32range(1, 300), rng.u32range(1, 300));
    let n_ec = rng.urange(0, 4);
    let ec: Vec<ExtraChannelInfo> = (0..n_ec).map(|_| ExtraChannelInfo::new(EcType::Depth, BitDepth::Int { bits: 8 }, rng.below(4) as u32, "")).collect();
    let bits = *rng.pick(&[1u32, 8, 16, 31]);
    let ih = ImageHeader { size: SizeHeader::new(w, h), metadata: ImageMetadata::plain(BitDepth::Int { bits }, grey, ec) };
    let mut fh = FrameHeader::modular(&ih);
    fh.group_size_shift = rng.below(4) as u32;
    let mut out = write_codestream_header(&ih, rng, false, None);
    let mut g = plain_lf_global_prefix();
    let has_tree = rng.bool();
    g.bool(has_tree);
    let env = TreeEnv { num_channels: 8, stream_indices: vec![0], max_w: w, max_h: h, amp: 1 << rng.below(31), allow_mul: true, allow_wp: true, max_prev: 5 };
    let write_tree_and_code = |g: &mut BitWriter, rng: &mut Rng| {
        let (tree, _) = random_tree(rng, &env);
        let reads = tree.reads();
        let items = crate::entropy::lits(&reads);
        let code = crate::entropy::EntropyCode::build(rng, 6, &items, &Default::default());
        code.write_header(g, rng);
        code.write_items(g, &items);
        // data code for the leaves: a code that can express small tokens
        let dreads: Vec<crate::entropy::Read> = (0..tree.num_leaves).flat_map(|c| (0..4).map(move |v| crate::entropy::Read { ctx: c, value: v * 3 })).collect();
        let ditems = crate::entropy::lits(&dreads);
        let dcode = crate::entropy::EntropyCode::build(rng, tree.num_leaves, &ditems, &Default::default());
        dcode.write_header(g, rng);
    };
    if has_tree {
        write_tree_and_code(&mut g, rng);
    }
    // ModularHeader
    let ntr = rng.urange(0, 6);
    let trs: Vec<Transform> = (0..ntr)
        .map(|_| match rng.below(3) {
            0 => Transform::Rct { begin_c: rng.bits_loguniform(10) as u32, rct_type: rng.below(74) as u32 },
            1 => Transform::Palette {
                begin_c: rng.bits_loguniform(8) as u32,
                num_c: *rng.pick(&[1u32, 3, 4, 17, 40, 8192]),
                nb_colours: (rng.bits_loguniform(17) as u32).min(70911),
                nb_deltas: (rng.bits_loguniform(17) as u32).min(66816),
                d_pred: rng.below(14) as u32,
            },
            _ => Transform::Squeeze(
                (0..rng.urange(0, 5))
                    .map(|_| SqueezeParam { horizontal: rng.bool(), in_place: rng.bool(), begin_c: rng.bits_loguniform(6) as u32, num_c: rng.u32range(1, 19) })
                    .collect(),
            ),
        })
        .collect();
    let hdr = SubHeader { use_global_tree: has_tree && rng.bool(), wp: random_wp_header(rng), transforms: trs };
    hdr.write(&mut g);
    if !hdr.use_global_tree {
        write_tree_and_code(&mut g, rng);
    }
    for _ in 0..rng.urange(0, 200) {
        g.write(8, rng.next_u64());
    }
    let entries = fh.toc_entries() as usize;
    let mut sections = vec![g];
    for _ in 1..entries {
        let mut s = BitWriter::new();
        for _ in 0..rng.urange(0, 30) {
            s.write(8, rng.next_u64());
        }
        sections.push(s);
    }
    write_frame(&mut out, rng, &ih, &fh, sections, false, false);
    out
}

/// A small valid Modular image whose header asks for an embedded ICC profile; `profile` is written
/// as a well-formed ICC stream (so the decoder sees exactly these profile bytes), whatever they are.
pub fn icc_carrier_modular(rng: &mut Rng, profile: &[u8]) -> Option<Vec<u8>> {
    use crate::icc::{write_icc, IccEntropyOpts, IccStyle, IccWriteOpts};
    let claims_grey = profile.len() >= 20 && &profile[16..20] == b"GRAY";
    let grey = if rng.chance(1, 8) { !claims_grey } else { claims_grey };
    let (w, h) = (rng.u32range(1, 24), rng.u32range(1, 24));
    let n_ec = rng.urange(0, 2);
    let ec: Vec<ExtraChannelInfo> = (0..n_ec)
        .map(|_| ExtraChannelInfo::new(if rng.bool() { EcType::Alpha { associated: false } } else { EcType::Black }, BitDepth::Int { bits: 8 }, 0, ""))
        .collect();
    let mut md = ImageMetadata::plain(BitDepth::Int { bits: 8 }, grey, ec);
    md.colour_encoding = ColourEncoding { all_default: false, want_icc: true, colour_space: if grey { 1 } else { 0 }, ..Default::default() };
    let ih = ImageHeader { size: SizeHeader::new(w, h), metadata: md };
    let fh = FrameHeader::modular(&ih);
    let infos = modular_channel_infos(&ih, &fh);
    let layout = group_layout(&fh);
    let mopts = ModularOpts {
        bit_depth: 8,
        range_lo: -4000,
        range_hi: 4000,
        sample_lo: 0,
        sample_hi: 255,
        allow_wp: true,
        allow_lz77: true,
        plain_entropy: false,
        local_tree_pct: 0,
        local_transform_pct: 0,
        transforms: None,
        max_transforms: 2,
        force_tree: None,
        palette_special: false,
        force_gens: None,
    };
    let enc = encode_modular(rng, &infos, &layout, &mopts)?;
    let style = if rng.chance(1, 6) { IccStyle::simplest() } else { IccStyle::random(rng, profile.len()) };
    let writer = |bw: &mut BitWriter, rng: &mut Rng| {
        let _ = write_icc(bw, profile, rng, &IccWriteOpts { style: style.clone(), entropy: IccEntropyOpts::default() });
    };
    let mut out = write_codestream_header(&ih, rng, false, Some(&writer));
    let sections = modular_frame_sections(&fh, &enc, &plain_lf_global_prefix());
    write_frame(&mut out, rng, &ih, &fh, sections, false, false);
    Some(out)
}

/// A small valid Modular image with a preview frame in front of the first frame (image and preview
/// both fit one group, where the frame layout of the preview is undisputed).
pub fn preview_carrier_modular(rng: &mut Rng) -> Option<Vec<u8>> {
    preview_carrier_modular_sized(rng, 40)
}

/// `max_dim` > 256 gives multi-group images with a one-group preview (jxl-oxide sizes the preview
/// frame from the image header: outside the judged domain, used by experiments only).
pub fn preview_carrier_modular_sized(rng: &mut Rng, max_dim: u32) -> Option<Vec<u8>> {
    let grey = rng.bool();
    let (w, h) = (rng.u32range(max_dim.min(max_dim / 2 + 1), max_dim), rng.u32range(max_dim.min(max_dim / 2 + 1), max_dim));
    let (pw, ph) = (rng.u32range(1, 24), rng.u32range(1, 24));
    let n_ec = rng.urange(0, 2);
    let ec: Vec<ExtraChannelInfo> = (0..n_ec).map(|_| ExtraChannelInfo::new(EcType::Alpha { associated: rng.bool() }, BitDepth::Int { bits: 8 }, 0, "")).collect();
    let mut md = ImageMetadata::plain(BitDepth::Int { bits: 8 }, grey, ec);
    md.preview = Some(PreviewHeader::with_random_repr(pw, ph, rng));
    md.all_default = false;
    md.extra_fields = true;
    let ih = ImageHeader { size: SizeHeader::new(w, h), metadata: md };
    let mut pmd = ih.metadata.clone();
    pmd.preview = None;
    pmd.extra_fields = pmd.needs_extra_fields();
    let pih = ImageHeader { size: SizeHeader::new(pw, ph), metadata: pmd };
    let mopts = ModularOpts {
        bit_depth: 8,
        range_lo: -4000,
        range_hi: 4000,
        sample_lo: 0,
        sample_hi: 255,
        allow_wp: true,
        allow_lz77: true,
        plain_entropy: false,
        local_tree_pct: 0,
        local_transform_pct: 0,
        transforms: None,
        max_transforms: 2,
        force_tree: None,
        palette_special: false,
        force_gens: None,
    };
    let mut out = write_codestream_header(&ih, rng, false, None);
    for (i, hdr) in [&pih, &ih].into_iter().enumerate() {
        let fh = FrameHeader::modular(hdr);
        let infos = modular_channel_infos(hdr, &fh);
        let layout = group_layout(&fh);
        let enc = encode_modular(rng, &infos, &layout, &mopts)?;
        let sections = modular_frame_sections(&fh, &enc, &plain_lf_global_prefix());
        let _ = i;
        write_frame(&mut out, rng, hdr, &fh, sections, false, false);
    }
    Some(out)
}
