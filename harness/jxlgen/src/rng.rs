//! Deterministic PRNG (xoshiro256**), seeded by splitmix64.

#[derive(Clone, Debug)]
pub struct Rng {
    s: [u64; 4],
}

fn splitmix(x: &mut u64) -> u64 {
    *x = x.wrapping_add(0x9E3779B97F4A7C15);
    let mut z = *x;
    z = (z ^ (z >> 30)).wrapping_mul(0xBF58476D1CE4E5B9);
    z = (z ^ (z >> 27)).wrapping_mul(0x94D049BB133111EB);
    z ^ (z >> 31)
}

impl Rng {
    pub fn new(seed: u64) -> Self {
        let mut x = seed;
        let s = [
            splitmix(&mut x),
            splitmix(&mut x),
            splitmix(&mut x),
            splitmix(&mut x),
        ];
        Self { s }
    }

    /// Derive an independent stream from (seed, index).
    pub fn derive(seed: u64, idx: u64) -> Self {
        let mut x = seed ^ idx.wrapping_mul(0xD1342543DE82EF95).rotate_left(17);
        let a = splitmix(&mut x);
        Self::new(a ^ idx)
    }

    pub fn fork(&mut self) -> Self {
        let a = self.next_u64();
        Self::new(a)
    }

    pub fn next_u64(&mut self) -> u64 {
        let s = &mut self.s;
        let result = s[1].wrapping_mul(5).rotate_left(7).wrapping_mul(9);
        let t = s[1] << 17;
        s[2] ^= s[0];
        s[3] ^= s[1];
        s[1] ^= s[2];
        s[0] ^= s[3];
        s[2] ^= t;
        s[3] = s[3].rotate_left(45);
        result
    }

    pub fn next_u32(&mut self) -> u32 {
        (self.next_u64() >> 32) as u32
    }

    /// Uniform in [0, n). n == 0 returns 0.
    pub fn below(&mut self, n: u64) -> u64 {
        if n == 0 {
            return 0;
        }
        // multiply-shift; bias negligible for our n
        ((self.next_u64() as u128 * n as u128) >> 64) as u64
    }

    /// Uniform in [lo, hi] inclusive.
    pub fn range(&mut self, lo: i64, hi: i64) -> i64 {
        debug_assert!(lo <= hi);
        lo + self.below((hi - lo) as u64 + 1) as i64
    }

    pub fn urange(&mut self, lo: usize, hi: usize) -> usize {
        self.range(lo as i64, hi as i64) as usize
    }

    pub fn u32range(&mut self, lo: u32, hi: u32) -> u32 {
        self.range(lo as i64, hi as i64) as u32
    }

    pub fn bool(&mut self) -> bool {
        self.next_u64() >> 63 != 0
    }

    /// true with probability num/den
    pub fn chance(&mut self, num: u64, den: u64) -> bool {
        self.below(den) < num
    }

    pub fn f64(&mut self) -> f64 {
        (self.next_u64() >> 11) as f64 / (1u64 << 53) as f64
    }

    pub fn pick<'a, T>(&mut self, xs: &'a [T]) -> &'a T {
        &xs[self.below(xs.len() as u64) as usize]
    }

    pub fn shuffle<T>(&mut self, xs: &mut [T]) {
        for i in (1..xs.len()).rev() {
            let j = self.below(i as u64 + 1) as usize;
            xs.swap(i, j);
        }
    }

    /// A number with a random bit-length up to `max_bits` (log-uniform-ish).
    pub fn bits_loguniform(&mut self, max_bits: u32) -> u64 {
        let b = self.below(max_bits as u64 + 1) as u32;
        if b == 0 {
            0
        } else {
            let top = 1u64 << (b - 1);
            top | (self.next_u64() & (top - 1))
        }
    }

    pub fn gauss(&mut self) -> f64 {
        // Box-Muller
        let u1 = (self.f64()).max(1e-300);
        let u2 = self.f64();
        (-2.0 * u1.ln()).sqrt() * (2.0 * std::f64::consts::PI * u2).cos()
    }
}
