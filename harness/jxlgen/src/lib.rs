//! jxlgen: an independent JPEG XL *writer* used as reference encoder and hostile-input generator.
pub mod bits;
pub mod entropy;
pub mod rng;
pub mod headers;
pub mod hgen;
pub mod modmodel;
pub mod modular;
pub mod icc;
pub mod codestream;
pub mod imggen;
pub mod container;
pub mod dctref;
pub mod anim;
pub mod hostile;
pub mod jpeg;
pub mod jbrd;
pub mod vardct;
