//! jxlgen: an independent JPEG XL *writer* used as reference encoder and hostile-input generator.
pub mod bits;
pub mod entropy;
pub mod rng;
pub mod headers;
pub mod hgen;
