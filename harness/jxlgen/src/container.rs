//! JPEG XL container (ISO/IEC 18181-2 box structure) WRITER, a whole-file REFERENCE READER and
//! generators of well-formed / ill-formed layouts.  std only, shares no code with the decoder.
//!
//! Format facts used (18181-2, ISO BMFF box syntax):
//! * a box is `size:u32be type:[u8;4] [xlsize:u64be if size==1] payload`; `size` counts the
//!   header; `size==0` means "runs to the end of the file" (therefore only the last box may use
//!   it); `size==1` means the real size is the 64-bit `xlsize` (which counts its 16-byte header).
//!   A size that is smaller than the header it sits in (2..=7, or xlsize < 16) is ill-formed.
//! * file = signature box `0000000C 'JXL ' 0D0A870A`, then `ftyp` (`jxl ` 0 `jxl `), then any
//!   boxes.  A file that starts with `FF 0A` instead is a bare codestream.
//! * codestream: either exactly one `jxlc` box, or a sequence of `jxlp` boxes whose payload starts
//!   with a big-endian u32 `index | last<<31`; indices count 0,1,2,.. in file order, the last
//!   part carries the flag, nothing codestream-like may follow it.  Parts may be empty.
//!   The codestream is the concatenation of the payloads (without the indices) in order.
//! * `brob` box: payload = 4-byte type of the wrapped box + a Brotli (RFC 7932) stream of the
//!   wrapped payload.  The wrapped type must not be `brob`, must not start with `jxl`, and must
//!   not be `jbrd`.
//! * `Exif` box payload = u32be offset of the TIFF header inside the rest + the rest.
//!
//! Decisions for odd layouts (what is *required* of a decoder by property C10):
//! * boxes after the last codestream box, `jxlc`/`jxlp`/aux boxes with size 0 (to EOF), empty
//!   `jxlp` parts, `jxll`, unknown box types: LEGAL, must be framed exactly.
//! * missing `ftyp`, boxes between signature and `ftyp`, a second signature box later in the
//!   file: ill-formed by the letter of 18181-2 but not part of C10's reject list (the list is:
//!   out-of-order / duplicate codestream boxes, undersized boxes, compressed reserved types);
//!   a decoder may be lenient here.  The reference reader therefore treats `ftyp` and friends as
//!   ordinary auxiliary boxes and only *reports* `ftyp_ok`.
//! * a wrong signature is not an "error event": the file is simply not a container
//!   (`Kind::Invalid`).
//! * a `jxlp` sequence that never sets the last flag, or a file without any codestream box,
//!   cannot be judged by a streaming parser that is never told about EOF: no error is required.

use crate::rng::Rng;

pub const SIGNATURE_BOX: [u8; 12] = [0, 0, 0, 0x0c, b'J', b'X', b'L', b' ', 0x0d, 0x0a, 0x87, 0x0a];
pub const FTYP_PAYLOAD: [u8; 12] = *b"jxl \0\0\0\0jxl ";
pub const CODESTREAM_SIG: [u8; 2] = [0xff, 0x0a];

pub type BoxType = [u8; 4];
pub const T_FTYP: BoxType = *b"ftyp";
pub const T_JXLL: BoxType = *b"jxll";
pub const T_JXLC: BoxType = *b"jxlc";
pub const T_JXLP: BoxType = *b"jxlp";
pub const T_JXLI: BoxType = *b"jxli";
pub const T_BROB: BoxType = *b"brob";
pub const T_JBRD: BoxType = *b"jbrd";
pub const T_EXIF: BoxType = *b"Exif";
pub const T_XML: BoxType = *b"xml ";
pub const T_JUMB: BoxType = *b"jumb";
pub const T_JHGM: BoxType = *b"jhgm";

/// May a box of this type be wrapped in `brob`?
pub fn brob_reserved(ty: &BoxType) -> bool {
    &ty[..3] == b"jxl" || ty == b"brob" || ty == b"jbrd"
}

pub fn ty_str(ty: &BoxType) -> String {
    ty.iter()
        .map(|&c| if (0x20..0x7f).contains(&c) && c != b'"' && c != b'\\' { (c as char).to_string() } else { format!("<{c:02x}>") })
        .collect()
}

// ------------------------------------------------------------------------------------------
// Stored Brotli (RFC 7932): only uncompressed and metadata meta-blocks.
// ------------------------------------------------------------------------------------------

struct Lsb {
    out: Vec<u8>,
    acc: u64,
    n: u32,
}

impl Lsb {
    fn put(&mut self, nbits: u32, v: u64) {
        debug_assert!(nbits <= 32);
        self.acc |= (v & ((1u64 << nbits) - 1)) << self.n;
        self.n += nbits;
        while self.n >= 8 {
            self.out.push(self.acc as u8);
            self.acc >>= 8;
            self.n -= 8;
        }
    }
    fn align(&mut self) {
        if self.n > 0 {
            self.out.push(self.acc as u8);
            self.acc = 0;
            self.n = 0;
        }
    }
}

#[derive(Clone, Debug)]
pub struct BrotliStored {
    /// window bits 10..=24 (only changes the stream header for stored blocks)
    pub wbits: u8,
    /// sizes of the successive uncompressed meta-blocks are drawn from 1..=max_block (<= 2^24);
    /// `usize::MAX` = always the largest possible block (2^24 or the rest of the data)
    pub max_block: usize,
    /// sprinkle metadata meta-blocks (skipped by a decoder) between data blocks
    pub metadata_blocks: bool,
    pub seed: u64,
}

impl BrotliStored {
    pub fn simple() -> Self {
        Self { wbits: 16, max_block: 65536, metadata_blocks: false, seed: 0 }
    }
    pub fn random(rng: &mut Rng) -> Self {
        Self {
            wbits: if rng.chance(1, 2) { 16 } else { rng.urange(10, 24) as u8 },
            max_block: match rng.below(6) {
                0 => 1,
                1 => rng.urange(1, 16),
                2 => rng.urange(1, 300),
                3 => 65536,
                4 => rng.urange(65537, 1 << 20),
                _ => 1 << 24,
            },
            metadata_blocks: rng.chance(1, 4),
            seed: rng.next_u64(),
        }
    }
}

/// A valid Brotli stream that decodes to `data`, made of uncompressed meta-blocks only.
pub fn brotli_stored(data: &[u8], o: &BrotliStored) -> Vec<u8> {
    let mut rng = Rng::new(o.seed ^ 0xB407);
    let mut w = Lsb { out: Vec::with_capacity(data.len() + data.len() / 1000 + 16), acc: 0, n: 0 };
    // WBITS (RFC 7932 section 9.1), bit patterns read LSB first
    let (code, nb): (u64, u32) = match o.wbits {
        16 => (0, 1),
        17 => (0b0000001, 7),
        18..=24 => (1 | ((o.wbits as u64 - 17) << 1), 4),
        10..=15 => (1 | ((o.wbits as u64 - 8) << 4), 7),
        _ => (0, 1),
    };
    w.put(nb, code);
    // at most a handful of metadata blocks per stream (they only add skipped bytes)
    let mut meta_left = 6u32;
    let mut metadata = |w: &mut Lsb, rng: &mut Rng| {
        if meta_left == 0 {
            return;
        }
        meta_left -= 1;
        // ISLAST=0, MNIBBLES code 3 (=> 0 nibbles: metadata), reserved 0, MSKIPBYTES, MSKIPLEN-1
        w.put(1, 0);
        w.put(2, 3);
        w.put(1, 0);
        let skip = match rng.below(3) {
            0 => 0usize,
            1 => rng.urange(1, 256),
            _ => rng.urange(257, 700),
        };
        if skip == 0 {
            w.put(2, 0);
        } else {
            let v = (skip - 1) as u64;
            let nbytes = if v < 256 { 1 } else { 2 }; // top byte must be non-zero when > 1 byte
            w.put(2, nbytes);
            w.put(8 * nbytes as u32, v);
        }
        w.align();
        for _ in 0..skip {
            w.out.push(rng.next_u64() as u8);
        }
    };
    let mut pos = 0usize;
    let maxb = o.max_block.clamp(1, 1 << 24);
    while pos < data.len() {
        if o.metadata_blocks && rng.chance(1, 3) {
            metadata(&mut w, &mut rng);
        }
        // `max_block == usize::MAX` requests the largest possible blocks (no random split)
        let len = if o.max_block == usize::MAX { maxb } else { rng.urange(1, maxb) }.min(data.len() - pos);
        let m = (len - 1) as u64;
        // MNIBBLES: 4, 5 or 6; with more than 4 nibbles the top nibble must be non-zero, so the
        // nibble count is forced by the value
        let (ncode, nibbles) = if m < 1 << 16 { (0, 4) } else if m < 1 << 20 { (1, 5) } else { (2, 6) };
        w.put(1, 0); // ISLAST
        w.put(2, ncode);
        w.put(4 * nibbles, m);
        w.put(1, 1); // ISUNCOMPRESSED
        w.align();
        w.out.extend_from_slice(&data[pos..pos + len]);
        pos += len;
    }
    if o.metadata_blocks && rng.chance(1, 3) {
        metadata(&mut w, &mut rng);
    }
    w.put(1, 1); // ISLAST
    w.put(1, 1); // ISLASTEMPTY
    w.align();
    w.out
}

// ------------------------------------------------------------------------------------------
// Layout description and writer
// ------------------------------------------------------------------------------------------

#[derive(Clone, Copy, Debug, PartialEq, Eq, PartialOrd, Ord)]
pub enum SizeForm {
    /// 32-bit size field
    S32,
    /// size field == 1, 64-bit size follows the type
    S64,
    /// size field == 0: box runs to the end of the file (last box only)
    ToEof,
}

#[derive(Clone, Debug)]
pub struct BoxSpec {
    /// logical type (for `brob`-wrapped boxes: the wrapped type)
    pub ty: BoxType,
    /// logical payload: exactly the box payload, for wrapped boxes the *decompressed* payload.
    /// (`jxlp`: index included, `Exif`: offset prefix included - see the constructors.)
    pub payload: Vec<u8>,
    pub size_form: SizeForm,
    /// wrap in a `brob` box using stored Brotli
    pub brob: Option<BrotliStored>,
    /// ill-formed files: write this value into the size field (32-bit field for `S32`, the
    /// 64-bit field for `S64`) instead of the true size
    pub size_override: Option<u64>,
    /// ill-formed files: raw on-disk payload replacing the computed one (e.g. a `brob` box
    /// with fewer than 4 payload bytes)
    pub raw_payload: Option<Vec<u8>>,
}

impl BoxSpec {
    pub fn new(ty: BoxType, payload: Vec<u8>) -> Self {
        Self { ty, payload, size_form: SizeForm::S32, brob: None, size_override: None, raw_payload: None }
    }
    pub fn ftyp() -> Self {
        Self::new(T_FTYP, FTYP_PAYLOAD.to_vec())
    }
    pub fn jxll(level: u8) -> Self {
        Self::new(T_JXLL, vec![level])
    }
    pub fn jxlc(data: &[u8]) -> Self {
        Self::new(T_JXLC, data.to_vec())
    }
    pub fn jxlp(index: u32, last: bool, data: &[u8]) -> Self {
        let mut p = Vec::with_capacity(4 + data.len());
        p.extend_from_slice(&((index & 0x7fff_ffff) | ((last as u32) << 31)).to_be_bytes());
        p.extend_from_slice(data);
        Self::new(T_JXLP, p)
    }
    pub fn exif(tiff_offset: u32, rest: &[u8]) -> Self {
        let mut p = Vec::with_capacity(4 + rest.len());
        p.extend_from_slice(&tiff_offset.to_be_bytes());
        p.extend_from_slice(rest);
        Self::new(T_EXIF, p)
    }
    pub fn form(mut self, f: SizeForm) -> Self {
        self.size_form = f;
        self
    }
    pub fn wrapped(mut self, b: BrotliStored) -> Self {
        self.brob = Some(b);
        self
    }
    pub fn is_codestream(&self) -> bool {
        self.brob.is_none() && (self.ty == T_JXLC || self.ty == T_JXLP)
    }
    /// (on-disk type, on-disk payload)
    pub fn disk(&self) -> (BoxType, Vec<u8>) {
        let (ty, mut p) = match &self.brob {
            None => (self.ty, self.payload.clone()),
            Some(b) => {
                let mut p = self.ty.to_vec();
                p.extend_from_slice(&brotli_stored(&self.payload, b));
                (T_BROB, p)
            }
        };
        if let Some(r) = &self.raw_payload {
            p = r.clone();
        }
        (ty, p)
    }
}

#[derive(Clone, Debug, PartialEq, Eq)]
pub enum Prologue {
    /// the 12-byte signature box
    Container,
    /// no box structure at all: `boxes` is ignored, `bare` is written verbatim
    Bare(Vec<u8>),
    /// arbitrary bytes in place of the signature box (wrong signature)
    Custom(Vec<u8>),
}

#[derive(Clone, Debug)]
pub struct Layout {
    pub prologue: Prologue,
    pub boxes: Vec<BoxSpec>,
}

/// Offsets of one written box.
#[derive(Clone, Debug)]
pub struct BoxSpan {
    pub start: usize,
    pub payload: usize,
    pub end: usize,
}

pub fn write_box(out: &mut Vec<u8>, ty: &BoxType, payload: &[u8], form: SizeForm, size_override: Option<u64>) -> BoxSpan {
    let start = out.len();
    match form {
        SizeForm::S32 => {
            let sz = size_override.unwrap_or(8 + payload.len() as u64) as u32;
            out.extend_from_slice(&sz.to_be_bytes());
            out.extend_from_slice(ty);
        }
        SizeForm::S64 => {
            let sz = size_override.unwrap_or(16 + payload.len() as u64);
            out.extend_from_slice(&1u32.to_be_bytes());
            out.extend_from_slice(ty);
            out.extend_from_slice(&sz.to_be_bytes());
        }
        SizeForm::ToEof => {
            out.extend_from_slice(&0u32.to_be_bytes());
            out.extend_from_slice(ty);
        }
    }
    let p = out.len();
    out.extend_from_slice(payload);
    BoxSpan { start, payload: p, end: out.len() }
}

pub fn write_container_spans(l: &Layout) -> (Vec<u8>, Vec<BoxSpan>) {
    let mut out = Vec::new();
    let mut spans = Vec::new();
    match &l.prologue {
        Prologue::Bare(b) => return (b.clone(), spans),
        Prologue::Container => out.extend_from_slice(&SIGNATURE_BOX),
        Prologue::Custom(b) => out.extend_from_slice(b),
    }
    for b in &l.boxes {
        let (ty, p) = b.disk();
        // a 32-bit size field cannot express payloads >= 4 GiB - 8; never generated
        spans.push(write_box(&mut out, &ty, &p, b.size_form, b.size_override));
    }
    (out, spans)
}

pub fn write_container(l: &Layout) -> Vec<u8> {
    write_container_spans(l).0
}

// ------------------------------------------------------------------------------------------
// Truth derived from the layout (NOT from the bytes)
// ------------------------------------------------------------------------------------------

#[derive(Clone, Debug, PartialEq, Eq)]
pub struct AuxTruth {
    pub ty: BoxType,
    /// true (decompressed) payload
    pub payload: Vec<u8>,
    /// payload as stored in the file (for `brob`: the Brotli stream, without the 4 type bytes)
    pub stored: Vec<u8>,
    pub brob: bool,
    /// box uses the to-EOF size form
    pub to_eof: bool,
}

#[derive(Clone, Copy, Debug, PartialEq, Eq, PartialOrd, Ord)]
pub enum Kind {
    Unknown,
    Bare,
    Container,
    Invalid,
}

#[derive(Clone, Debug, PartialEq, Eq)]
pub struct LayoutTruth {
    pub kind: Kind,
    /// concatenated codestream payloads in order
    pub codestream: Vec<u8>,
    /// every non-codestream box after the signature box, in file order (`ftyp`, `jxll` included)
    pub aux: Vec<AuxTruth>,
}

impl LayoutTruth {
    pub fn first_of(&self, ty: &BoxType) -> Option<&AuxTruth> {
        self.aux.iter().find(|a| &a.ty == ty)
    }
}

/// Truth of a WELL-FORMED layout.
pub fn truth_of(l: &Layout) -> LayoutTruth {
    match &l.prologue {
        Prologue::Bare(b) => return LayoutTruth { kind: Kind::Bare, codestream: b.clone(), aux: vec![] },
        Prologue::Custom(_) => {
            return LayoutTruth { kind: Kind::Invalid, codestream: write_container(l), aux: vec![] };
        }
        Prologue::Container => {}
    }
    let mut t = LayoutTruth { kind: Kind::Container, codestream: Vec::new(), aux: Vec::new() };
    for b in &l.boxes {
        if b.is_codestream() {
            let skip = if b.ty == T_JXLP { 4 } else { 0 };
            t.codestream.extend_from_slice(&b.payload[skip.min(b.payload.len())..]);
        } else {
            let (_, disk) = b.disk();
            t.aux.push(AuxTruth {
                ty: b.ty,
                payload: b.payload.clone(),
                stored: if b.brob.is_some() { disk[4..].to_vec() } else { disk },
                brob: b.brob.is_some(),
                to_eof: b.size_form == SizeForm::ToEof,
            });
        }
    }
    t
}

// ------------------------------------------------------------------------------------------
// Random well-formed layouts
// ------------------------------------------------------------------------------------------

#[derive(Clone, Debug)]
pub struct WrapOpts {
    pub max_parts: usize,
    pub max_aux: usize,
    /// aux payload sizes: mostly 0..=small_payload, with probability 1/big_every up to big_payload
    pub small_payload: usize,
    pub big_payload: usize,
    pub big_every: u64,
    pub allow_brob: bool,
    pub allow_s64: bool,
    pub allow_to_eof: bool,
    pub allow_jbrd: bool,
    pub allow_unknown_types: bool,
    /// Exif boxes always carry a TIFF offset that lies inside the payload
    pub exif_valid: bool,
    /// probability (x/16) of using a single jxlc instead of jxlp parts
    pub jxlc_16: u64,
}

impl Default for WrapOpts {
    fn default() -> Self {
        Self {
            max_parts: 12,
            max_aux: 6,
            small_payload: 48,
            big_payload: 70_000,
            big_every: 60,
            allow_brob: true,
            allow_s64: true,
            allow_to_eof: true,
            allow_jbrd: true,
            allow_unknown_types: true,
            exif_valid: true,
            jxlc_16: 5,
        }
    }
}

pub fn random_bytes(rng: &mut Rng, n: usize) -> Vec<u8> {
    let style = rng.below(4);
    let mut v = Vec::with_capacity(n);
    let mut x = 0u64;
    for i in 0..n {
        if i % 8 == 0 {
            x = rng.next_u64();
        }
        let b = (x >> (8 * (i % 8))) as u8;
        v.push(match style {
            0 => b,
            // bytes that look like box headers / signatures, to catch resynchronisation bugs
            1 => *[0u8, 0, 0, 1, 8, 0x0c, b'j', b'x', b'l', b'c', b'p', b'b', b'r', b'o', 0xff, 0x0a]
                .get((b & 15) as usize)
                .unwrap_or(&0),
            2 => (i as u8).wrapping_mul(7).wrapping_add(b & 1),
            _ => b & 3,
        });
    }
    v
}

fn random_aux_type(rng: &mut Rng, o: &WrapOpts) -> BoxType {
    loop {
        let t: BoxType = match rng.below(12) {
            0 | 1 => T_EXIF,
            2 | 3 => T_XML,
            4 => T_JUMB,
            5 => T_JXLL,
            6 => T_JXLI,
            7 => T_JHGM,
            8 if o.allow_jbrd => T_JBRD,
            9 => T_FTYP, // a second ftyp is just another box for the framing layer
            _ if o.allow_unknown_types => match rng.below(5) {
                0 => *b"abcd",
                1 => *b"uuid",
                2 => *b"JXL ",
                3 => *b"jxlx", // unknown but in the reserved jxl* name space
                _ => {
                    let x = rng.next_u32().to_le_bytes();
                    x
                }
            },
            _ => T_XML,
        };
        // never accidentally produce a codestream or brob box here
        if t != T_JXLC && t != T_JXLP && t != T_BROB {
            return t;
        }
    }
}

pub fn random_aux_box(rng: &mut Rng, o: &WrapOpts) -> BoxSpec {
    let ty = random_aux_type(rng, o);
    let n = if rng.chance(1, o.big_every.max(1)) {
        rng.urange(0, o.big_payload)
    } else if rng.chance(1, 6) {
        0
    } else {
        rng.urange(0, o.small_payload)
    };
    let mut b = if ty == T_EXIF {
        let n = n.max(if o.exif_valid { 1 } else { 0 });
        let rest = random_bytes(rng, n);
        if o.exif_valid {
            // offset anywhere inside the payload, the two ends preferred
            let off = match rng.below(4) {
                0 => 0,
                1 => n - 1,
                _ => rng.below(n as u64) as usize,
            };
            BoxSpec::exif(off as u32, &rest)
        } else {
            // invalid: offset at / past the end of the payload, or a box shorter than the prefix
            match rng.below(4) {
                0 => BoxSpec::exif(n as u32, &rest),
                1 => BoxSpec::exif(n as u32 + 1, &rest),
                2 => BoxSpec::new(T_EXIF, random_bytes(rng, n.min(3))),
                _ => BoxSpec::exif(rng.next_u32().max(n as u32), &rest),
            }
        }
    } else if ty == T_JXLL {
        BoxSpec::jxll(*rng.pick(&[5u8, 10]))
    } else {
        BoxSpec::new(ty, random_bytes(rng, n))
    };
    if o.allow_brob && !brob_reserved(&b.ty) && rng.chance(1, 3) {
        b.brob = Some(BrotliStored::random(rng));
    }
    if o.allow_s64 && rng.chance(1, 5) {
        b.size_form = SizeForm::S64;
    }
    b
}

/// Split `codestream` into `jxlc` or `jxlp` parts.
pub fn random_codestream_boxes(codestream: &[u8], rng: &mut Rng, o: &WrapOpts) -> Vec<BoxSpec> {
    let mut v = Vec::new();
    if rng.below(16) < o.jxlc_16 {
        v.push(BoxSpec::jxlc(codestream));
    } else {
        let parts = rng.urange(1, o.max_parts.max(1));
        // cut points, duplicates allowed => empty parts
        let mut cuts: Vec<usize> = (0..parts - 1)
            .map(|_| match rng.below(4) {
                0 => 0,
                1 => codestream.len(),
                2 => rng.urange(0, codestream.len().min(8)),
                _ => rng.urange(0, codestream.len()),
            })
            .collect();
        cuts.sort();
        cuts.push(codestream.len());
        let mut prev = 0;
        for (i, &c) in cuts.iter().enumerate() {
            v.push(BoxSpec::jxlp(i as u32, i + 1 == cuts.len(), &codestream[prev..c]));
            prev = c;
        }
    }
    for b in v.iter_mut() {
        if o.allow_s64 && rng.chance(1, 5) {
            b.size_form = SizeForm::S64;
        }
    }
    v
}

/// A random WELL-FORMED container layout around `codestream`.
pub fn random_layout(codestream: &[u8], rng: &mut Rng, o: &WrapOpts) -> Layout {
    let mut boxes = vec![BoxSpec::ftyp()];
    if rng.chance(1, 4) {
        boxes.push(BoxSpec::jxll(*rng.pick(&[5u8, 10])));
    }
    let cs = random_codestream_boxes(codestream, rng, o);
    let naux = if rng.chance(1, 5) { 0 } else { rng.urange(0, o.max_aux) };
    // interleave: choose for each aux box a slot 0..=cs.len() (0 = before the first codestream box)
    let mut slots: Vec<usize> = (0..naux).map(|_| rng.urange(0, cs.len())).collect();
    slots.sort();
    let mut si = 0;
    for (i, c) in cs.into_iter().enumerate() {
        while si < slots.len() && slots[si] == i {
            boxes.push(random_aux_box(rng, o));
            si += 1;
        }
        boxes.push(c);
    }
    while si < slots.len() {
        boxes.push(random_aux_box(rng, o));
        si += 1;
    }
    if o.allow_s64 && rng.chance(1, 8) {
        boxes[0].size_form = SizeForm::S64;
    }
    if o.allow_to_eof && rng.chance(1, 3) {
        if let Some(l) = boxes.last_mut() {
            l.size_form = SizeForm::ToEof;
        }
    }
    Layout { prologue: Prologue::Container, boxes }
}

/// Random valid layout around a codestream; returns the file and the truth.
pub fn wrap_codestream(codestream: &[u8], rng: &mut Rng, o: &WrapOpts) -> (Vec<u8>, LayoutTruth) {
    let l = random_layout(codestream, rng, o);
    (write_container(&l), truth_of(&l))
}

// ------------------------------------------------------------------------------------------
// Ill-formed layouts
// ------------------------------------------------------------------------------------------

#[derive(Clone, Copy, Debug, PartialEq, Eq, PartialOrd, Ord)]
pub enum Ill {
    DupJxlc,
    JxlcAfterJxlp,
    JxlcAfterFinalJxlp,
    JxlpAfterJxlc,
    JxlpAfterFinal,
    JxlpIndexGap,
    JxlpIndexDup,
    JxlpIndexBackwards,
    JxlpFirstNotZero,
    JxlpShort,
    Size32TooSmall,
    Size64TooSmall,
    BrobShort,
    BrobReserved,
}

pub const ALL_ILL: [Ill; 14] = [
    Ill::DupJxlc,
    Ill::JxlcAfterJxlp,
    Ill::JxlcAfterFinalJxlp,
    Ill::JxlpAfterJxlc,
    Ill::JxlpAfterFinal,
    Ill::JxlpIndexGap,
    Ill::JxlpIndexDup,
    Ill::JxlpIndexBackwards,
    Ill::JxlpFirstNotZero,
    Ill::JxlpShort,
    Ill::Size32TooSmall,
    Ill::Size64TooSmall,
    Ill::BrobShort,
    Ill::BrobReserved,
];

/// Layouts that 18181-2 frowns upon but C10 does not require to be rejected.
#[derive(Clone, Copy, Debug, PartialEq, Eq, PartialOrd, Ord)]
pub enum Odd {
    MissingFtyp,
    BoxBeforeFtyp,
    WrongSignature,
    TruncatedSignature,
    Bare,
}

pub const ALL_ODD: [Odd; 5] = [Odd::MissingFtyp, Odd::BoxBeforeFtyp, Odd::WrongSignature, Odd::TruncatedSignature, Odd::Bare];

fn codestream_positions(l: &Layout) -> Vec<usize> {
    l.boxes.iter().enumerate().filter(|(_, b)| b.is_codestream()).map(|(i, _)| i).collect()
}

/// An ill-formed layout of the requested kind built by damaging a random well-formed one.
/// Everything in front of the damaged box stays well-formed, so a decoder must deliver that
/// prefix and then fail.
pub fn ill_formed_layout(kind: Ill, codestream: &[u8], rng: &mut Rng, o: &WrapOpts) -> Layout {
    let mut o = o.clone();
    match kind {
        Ill::DupJxlc | Ill::JxlpAfterJxlc => o.jxlc_16 = 16,
        Ill::JxlcAfterJxlp
        | Ill::JxlcAfterFinalJxlp
        | Ill::JxlpAfterFinal
        | Ill::JxlpIndexGap
        | Ill::JxlpIndexDup
        | Ill::JxlpIndexBackwards
        | Ill::JxlpFirstNotZero
        | Ill::JxlpShort => o.jxlc_16 = 0,
        _ => {}
    }
    if matches!(kind, Ill::JxlpIndexGap | Ill::JxlpIndexDup | Ill::JxlpIndexBackwards | Ill::JxlcAfterJxlp) {
        o.max_parts = o.max_parts.max(3);
    }
    let mut l;
    loop {
        l = random_layout(codestream, rng, &o);
        let n = codestream_positions(&l).len();
        let need = match kind {
            Ill::JxlpIndexGap | Ill::JxlpIndexDup | Ill::JxlcAfterJxlp => 2,
            Ill::JxlpIndexBackwards => 3,
            _ => 1,
        };
        if n >= need {
            break;
        }
    }
    // the last box may be to-EOF; anything we append must come after a sized box
    let unseal = |l: &mut Layout| {
        if let Some(b) = l.boxes.last_mut() {
            if b.size_form == SizeForm::ToEof {
                b.size_form = SizeForm::S32;
            }
        }
    };
    let cs = codestream_positions(&l);
    let njunk = rng.urange(0, 12);
    let junk = random_bytes(rng, njunk);
    let rand_form = |rng: &mut Rng| match rng.below(4) {
        0 => SizeForm::S64,
        1 => SizeForm::ToEof,
        _ => SizeForm::S32,
    };
    let set_index = |b: &mut BoxSpec, idx: u32| {
        let last = b.payload[0] & 0x80;
        let v = idx.to_be_bytes();
        b.payload[..4].copy_from_slice(&v);
        b.payload[0] = (b.payload[0] & 0x7f) | last;
    };
    match kind {
        Ill::DupJxlc | Ill::JxlcAfterFinalJxlp => {
            unseal(&mut l);
            for _ in 0..rng.below(3) {
                l.boxes.push(random_aux_box(rng, &o));
            }
            let f = rand_form(rng);
            l.boxes.push(BoxSpec::jxlc(&junk).form(f));
        }
        Ill::JxlcAfterJxlp => {
            // replace a non-first part by a jxlc
            let k = cs[rng.urange(1, cs.len() - 1)];
            let data = l.boxes[k].payload[4..].to_vec();
            let f = l.boxes[k].size_form;
            l.boxes[k] = BoxSpec::jxlc(&data).form(f);
        }
        Ill::JxlpAfterJxlc => {
            unseal(&mut l);
            for _ in 0..rng.below(3) {
                l.boxes.push(random_aux_box(rng, &o));
            }
            let f = rand_form(rng);
            l.boxes.push(BoxSpec::jxlp(*rng.pick(&[0u32, 1]), rng.bool(), &junk).form(f));
        }
        Ill::JxlpAfterFinal => {
            unseal(&mut l);
            for _ in 0..rng.below(3) {
                l.boxes.push(random_aux_box(rng, &o));
            }
            let f = rand_form(rng);
            let idx = cs.len() as u32;
            l.boxes.push(BoxSpec::jxlp(*rng.pick(&[idx, 0, idx + 1]), rng.bool(), &junk).form(f));
        }
        Ill::JxlpIndexGap => {
            let k = rng.urange(1, cs.len() - 1);
            let d = *rng.pick(&[1u32, 2, 0x100, 0x0100_0000, 0x7fff_0000]);
            set_index(&mut l.boxes[cs[k]], k as u32 + d);
        }
        Ill::JxlpIndexDup => {
            let k = rng.urange(1, cs.len() - 1);
            set_index(&mut l.boxes[cs[k]], k as u32 - 1);
        }
        Ill::JxlpIndexBackwards => {
            let k = rng.urange(2, cs.len() - 1);
            set_index(&mut l.boxes[cs[k]], rng.below(k as u64 - 1) as u32);
        }
        Ill::JxlpFirstNotZero => {
            let d = *rng.pick(&[1u32, 2, 0x7fff_ffff, 0x100]);
            set_index(&mut l.boxes[cs[0]], d);
        }
        Ill::JxlpShort => {
            let k = cs[rng.below(cs.len() as u64) as usize];
            let n = rng.urange(0, 3);
            l.boxes[k].payload.truncate(n);
            l.boxes.truncate(k + 1);
            if l.boxes[k].size_form == SizeForm::ToEof {
                l.boxes[k].size_form = SizeForm::S32;
            }
            // something after it so that a parser cannot be "still waiting"
            l.boxes.push(BoxSpec::new(T_XML, junk));
        }
        Ill::Size32TooSmall => {
            let k = rng.below(l.boxes.len() as u64) as usize;
            l.boxes[k].size_form = SizeForm::S32;
            l.boxes[k].size_override = Some(rng.urange(2, 7) as u64);
        }
        Ill::Size64TooSmall => {
            let k = rng.below(l.boxes.len() as u64) as usize;
            l.boxes[k].size_form = SizeForm::S64;
            l.boxes[k].size_override = Some(rng.urange(0, 15) as u64);
        }
        Ill::BrobShort => {
            let k = rng.urange(1, l.boxes.len());
            let n = rng.urange(0, 3);
            let mut b = BoxSpec::new(T_BROB, vec![]);
            b.raw_payload = Some(b"xml "[..n].to_vec());
            if rng.chance(1, 3) {
                b.size_form = SizeForm::S64;
            }
            if k == l.boxes.len() {
                unseal(&mut l);
            }
            l.boxes.insert(k, b);
        }
        Ill::BrobReserved => {
            let k = rng.urange(1, l.boxes.len());
            let inner: BoxType = *rng.pick(&[T_JXLC, T_JXLP, T_JXLL, T_JXLI, *b"jxlx", *b"jxl ", T_BROB, T_JBRD]);
            let mut b = BoxSpec::new(inner, random_bytes(rng, 5)).wrapped(BrotliStored::random(rng));
            if rng.chance(1, 3) {
                b.size_form = SizeForm::S64;
            }
            if k == l.boxes.len() {
                unseal(&mut l);
                if rng.chance(1, 3) {
                    b.size_form = SizeForm::ToEof;
                }
            }
            l.boxes.insert(k, b);
        }
    }
    l
}

pub fn odd_layout(kind: Odd, codestream: &[u8], rng: &mut Rng, o: &WrapOpts) -> Layout {
    let mut l = random_layout(codestream, rng, o);
    match kind {
        Odd::MissingFtyp => {
            l.boxes.remove(0);
        }
        Odd::BoxBeforeFtyp => {
            let mut o2 = o.clone();
            o2.allow_to_eof = false;
            let b = random_aux_box(rng, &o2);
            l.boxes.insert(0, b);
        }
        Odd::WrongSignature => {
            let mut s = SIGNATURE_BOX.to_vec();
            match rng.below(4) {
                0 => {
                    let k = rng.below(12) as usize;
                    s[k] ^= 1 << rng.below(8);
                }
                1 => s = vec![0xff, *rng.pick(&[0x0bu8, 0x00, 0xff, 0xd8])],
                2 => s = b"\x89PNG\r\n\x1a\n".to_vec(),
                _ => {
                    s.truncate(rng.urange(1, 11));
                    s.push(0x55);
                }
            }
            l.prologue = Prologue::Custom(s);
        }
        Odd::TruncatedSignature => {
            // a strict prefix of one of the two signatures and nothing else
            let s = if rng.bool() { SIGNATURE_BOX[..rng.urange(0, 11)].to_vec() } else { vec![0xff] };
            l.prologue = Prologue::Bare(s);
        }
        Odd::Bare => {
            let mut s = CODESTREAM_SIG.to_vec();
            s.extend_from_slice(codestream);
            l.prologue = Prologue::Bare(s);
        }
    }
    l
}

// ------------------------------------------------------------------------------------------
// Whole-file reference reader -> expected event stream of a streaming container parser
// ------------------------------------------------------------------------------------------

/// Events in *merged* form: adjacent data of the same box / adjacent codestream data is one
/// event, empty data events do not exist.
#[derive(Clone, Debug, PartialEq, Eq)]
pub enum Ev {
    Kind(Kind),
    Codestream(Vec<u8>),
    /// the codestream box in progress runs to EOF: no auxiliary box can follow
    NoMoreAux,
    Start { ty: BoxType, brob: bool, last: bool },
    Data { ty: BoxType, bytes: Vec<u8> },
    End { ty: BoxType },
}

#[derive(Clone, Debug, PartialEq, Eq)]
pub enum Outcome {
    /// no rule violated by the bytes seen so far
    Ok,
    /// ill-formed; decidable from the first `at` bytes of the file
    Err { why: &'static str, at: usize },
}

#[derive(Clone, Debug)]
pub struct RefParse {
    pub kind: Kind,
    pub events: Vec<Ev>,
    pub outcome: Outcome,
    /// number of bytes a streaming parser can have digested (everything except an incomplete
    /// box header / jxlp index / brob type at the very end); for `Err`: start of the offending box
    pub consumed: usize,
    /// trailing events that a parser which is never told about EOF cannot be required to emit
    /// (the `End` of a sized box that finishes exactly at EOF; `NoMoreAux` of an empty to-EOF
    /// codestream box)
    pub tail_optional: usize,
    /// structure offsets (box starts, payload starts, after index / brob type, box ends)
    pub marks: Vec<usize>,
    /// 64-bit headers, complete or not: (start, start+16)
    pub xl_headers: Vec<(usize, usize)>,
    /// second box is a well-formed `ftyp`
    pub ftyp_ok: bool,
    /// per box: (type on disk, sized payload length or None, header length)
    pub boxes: Vec<(BoxType, Option<u64>, usize)>,
}

impl RefParse {
    pub fn codestream(&self) -> Vec<u8> {
        let mut v = Vec::new();
        for e in &self.events {
            if let Ev::Codestream(b) = e {
                v.extend_from_slice(b);
            }
        }
        v
    }
    /// (type, brob, stored payload) of every auxiliary box
    pub fn aux(&self) -> Vec<(BoxType, bool, Vec<u8>)> {
        let mut v: Vec<(BoxType, bool, Vec<u8>)> = Vec::new();
        for e in &self.events {
            match e {
                Ev::Start { ty, brob, .. } => v.push((*ty, *brob, Vec::new())),
                Ev::Data { bytes, .. } => {
                    if let Some(l) = v.last_mut() {
                        l.2.extend_from_slice(bytes);
                    }
                }
                _ => {}
            }
        }
        v
    }
}

fn push_cs(ev: &mut Vec<Ev>, b: &[u8]) {
    if b.is_empty() {
        return;
    }
    if let Some(Ev::Codestream(v)) = ev.last_mut() {
        v.extend_from_slice(b);
    } else {
        ev.push(Ev::Codestream(b.to_vec()));
    }
}

/// Reference reader: what must a streaming parser have reported after seeing exactly `f`?
pub fn ref_parse(f: &[u8]) -> RefParse {
    let mut r = RefParse {
        kind: Kind::Unknown,
        events: Vec::new(),
        outcome: Outcome::Ok,
        consumed: 0,
        tail_optional: 0,
        marks: Vec::new(),
        xl_headers: Vec::new(),
        ftyp_ok: false,
        boxes: Vec::new(),
    };
    // --- signature
    if f.len() >= 2 && f[..2] == CODESTREAM_SIG {
        r.kind = Kind::Bare;
    } else if f.len() >= 12 && f[..12] == SIGNATURE_BOX {
        r.kind = Kind::Container;
    } else if SIGNATURE_BOX.starts_with(f) || CODESTREAM_SIG.starts_with(f) {
        // still undecided (includes the empty file)
        return r;
    } else {
        r.kind = Kind::Invalid;
    }
    r.events.push(Ev::Kind(r.kind));
    if r.kind != Kind::Container {
        // not a container: everything (signature included) is handed on as "codestream"
        r.events.push(Ev::NoMoreAux);
        push_cs(&mut r.events, f);
        r.consumed = f.len();
        return r;
    }
    let mut pos = 12usize;
    r.marks.push(pos);
    // codestream box bookkeeping
    let mut seen_jxlc = false;
    let mut next_jxlp: u32 = 0;
    let mut seen_jxlp = false;
    let mut jxlp_done = false;
    let mut nbox = 0usize;
    macro_rules! fail {
        ($why:expr, $at:expr, $start:expr) => {{
            r.outcome = Outcome::Err { why: $why, at: $at };
            r.consumed = $start;
            return r;
        }};
    }
    loop {
        r.consumed = pos;
        let rest = &f[pos..];
        if rest.len() < 8 {
            return r; // incomplete header (or clean end)
        }
        let start = pos;
        let size32 = u32::from_be_bytes([rest[0], rest[1], rest[2], rest[3]]);
        let ty: BoxType = [rest[4], rest[5], rest[6], rest[7]];
        let (hdr, plen): (usize, Option<u64>) = match size32 {
            0 => (8, None),
            1 => {
                r.xl_headers.push((start, start + 16));
                if rest.len() < 16 {
                    return r; // 64-bit size not complete yet
                }
                let xl = u64::from_be_bytes([rest[8], rest[9], rest[10], rest[11], rest[12], rest[13], rest[14], rest[15]]);
                if xl < 16 {
                    fail!("64-bit box size smaller than its header", start + 16, start);
                }
                (16, Some(xl - 16))
            }
            2..=7 => fail!("box size smaller than its header", start + 8, start),
            s => (8, Some(s as u64 - 8)),
        };
        nbox += 1;
        if nbox == 1 && ty == T_FTYP && plen == Some(12) && rest.len() >= hdr + 12 && rest[hdr..hdr + 12] == FTYP_PAYLOAD {
            r.ftyp_ok = true;
        }
        r.boxes.push((ty, plen, hdr));
        pos += hdr;
        r.marks.push(pos);
        let avail = (f.len() - pos) as u64;
        // bytes of this box's payload present in the file
        let have = plen.map_or(avail, |p| p.min(avail)) as usize;
        let complete = plen.is_some_and(|p| p <= avail);
        if ty == T_JXLC {
            if seen_jxlc {
                fail!("duplicate jxlc", pos, start);
            }
            if seen_jxlp {
                fail!("jxlc after jxlp", pos, start);
            }
            seen_jxlc = true;
            if plen.is_none() {
                r.events.push(Ev::NoMoreAux);
                if have == 0 {
                    r.tail_optional = 1;
                }
            }
            push_cs(&mut r.events, &f[pos..pos + have]);
        } else if ty == T_JXLP {
            if plen.is_some_and(|p| p < 4) {
                fail!("jxlp box too small for its index", pos, start);
            }
            if seen_jxlc {
                fail!("jxlp after jxlc", pos, start);
            }
            if jxlp_done {
                fail!("jxlp after the final jxlp", pos, start);
            }
            if have < 4 {
                // index incomplete: header digested, index not
                r.consumed = pos;
                return r;
            }
            let idx = u32::from_be_bytes([f[pos], f[pos + 1], f[pos + 2], f[pos + 3]]);
            if idx & 0x7fff_ffff != next_jxlp {
                fail!("jxlp index out of order", pos + 4, start);
            }
            seen_jxlp = true;
            next_jxlp = next_jxlp.wrapping_add(1);
            if idx >> 31 != 0 {
                jxlp_done = true;
            }
            r.marks.push(pos + 4);
            if plen.is_none() {
                r.events.push(Ev::NoMoreAux);
                if have == 4 {
                    r.tail_optional = 1;
                }
            }
            push_cs(&mut r.events, &f[pos + 4..pos + have]);
        } else {
            let mut dstart = pos;
            let (ety, brob) = if ty == T_BROB {
                if plen.is_some_and(|p| p < 4) {
                    fail!("brob box too small for the wrapped type", pos, start);
                }
                if have < 4 {
                    r.consumed = pos;
                    return r;
                }
                let inner: BoxType = [f[pos], f[pos + 1], f[pos + 2], f[pos + 3]];
                if brob_reserved(&inner) {
                    fail!("brob wraps a reserved box type", pos + 4, start);
                }
                dstart = pos + 4;
                r.marks.push(dstart);
                (inner, true)
            } else {
                (ty, false)
            };
            r.events.push(Ev::Start { ty: ety, brob, last: plen.is_none() });
            if pos + have > dstart {
                r.events.push(Ev::Data { ty: ety, bytes: f[dstart..pos + have].to_vec() });
            }
            if complete {
                r.events.push(Ev::End { ty: ety });
                if pos + have == f.len() {
                    r.tail_optional = 1;
                }
            }
        }
        pos += have;
        r.marks.push(pos);
        if !complete {
            // to-EOF box, or truncated sized box: file exhausted
            r.consumed = pos;
            return r;
        }
    }
}

/// Convenience for other checkers: split a (well-formed, complete) file into codestream and
/// stored auxiliary boxes.  `None` if ill-formed or not a JPEG XL file.
pub fn extract(f: &[u8]) -> Option<(Kind, Vec<u8>, Vec<(BoxType, bool, Vec<u8>)>)> {
    let r = ref_parse(f);
    if r.outcome != Outcome::Ok || r.kind == Kind::Unknown || r.kind == Kind::Invalid {
        return None;
    }
    Some((r.kind, r.codestream(), r.aux()))
}
