//! Complete single- and multi-frame Modular images with known truth.

use crate::bits::BitWriter;
use crate::codestream::*;
use crate::headers::*;
use crate::modmodel::{ChanInfo, Channel};
use crate::modular::*;
use crate::rng::Rng;

#[derive(Clone, Debug)]
pub struct ImgOpts {
    /// size class: 0 tiny (1..8), 1 small (..64), 2 around group edges, 3 multi-group, 4 any
    pub size_class: u32,
    pub max_dim: u32,
    pub max_extra: usize,
    /// restrict to depths <= 12 and mark 16-bit buffers as sufficient (truthfully)
    pub narrow: bool,
    /// 0: never write a preview frame; 1: only where the preview frame's TOC has the same number of
    /// entries whether it is sized from the preview header (the format) or from the image header
    /// (what jxl-oxide does); 2: any
    pub preview: u32,
    /// with `narrow`: samples and residuals use the whole i16 range (13..15 bit samples) and no
    /// transform is applied, so nothing but the predictors' own arithmetic can leave 16 bits
    pub narrow_full_range: bool,
    pub allow_float: bool,
    pub allow_squeeze_passes: bool,
    pub ec_dim_shift: bool,
    pub orientation: bool,
    pub palette_special: bool,
    pub allow_local: bool,
    pub max_transforms: usize,
    pub plain_entropy: bool,
    pub container: bool,
    /// force bit depth
    pub bit_depth: Option<u32>,
    pub fixed_dims: Option<(u32, u32)>,
    pub force_transforms: Option<Vec<crate::modmodel::Transform>>,
    pub group_size_shift: Option<u32>,
}

impl Default for ImgOpts {
    fn default() -> Self {
        Self {
            size_class: 4,
            max_dim: 300,
            max_extra: 4,
            narrow: false,
            preview: 0,
            narrow_full_range: false,
            allow_float: true,
            allow_squeeze_passes: true,
            ec_dim_shift: true,
            orientation: false,
            palette_special: true,
            allow_local: true,
            max_transforms: 4,
            plain_entropy: false,
            container: false,
            bit_depth: None,
            fixed_dims: None,
            force_transforms: None,
            group_size_shift: None,
        }
    }
}

#[derive(Clone, Debug)]
pub struct ModularImage {
    pub bytes: Vec<u8>,
    pub ih: ImageHeader,
    pub fh: FrameHeader,
    pub infos: Vec<ChanInfo>,
    /// truth per Modular channel (colour first, then extra), native channel resolution
    pub truth: Vec<Channel>,
    pub desc: String,
    pub enc_desc: String,
    pub frame_layout: FrameLayoutInfo,
    pub num_color: usize,
    pub hard_range: (i64, i64),
    pub track: (i64, i64),
    pub nonzero_residuals: usize,
    pub num_samples: usize,
    pub transforms: Vec<crate::modmodel::Transform>,
    /// preview frame written in front of the frame: (width, height, TOC entry count differs between the two sizings)
    pub preview: Option<(u32, u32, bool)>,
}

pub fn random_dims(rng: &mut Rng, class: u32, max_dim: u32, gdim: u32) -> (u32, u32) {
    let one = |rng: &mut Rng| -> u32 {
        let c = if class == 4 { rng.below(4) as u32 } else { class };
        let v = match c {
            0 => rng.u32range(1, 8),
            1 => rng.u32range(1, 70),
            2 => {
                // around multiples of the group dimension and of 8 / 16
                let base = *rng.pick(&[gdim, gdim * 2, 16, 32, 64, gdim / 2]);
                (base as i64 + rng.range(-8, 8)).max(1) as u32
            }
            _ => rng.u32range(gdim / 2, max_dim.max(gdim / 2 + 1)),
        };
        v.clamp(1, max_dim)
    };
    (one(rng), one(rng))
}

fn random_depth(rng: &mut Rng, opts: &ImgOpts) -> BitDepth {
    if let Some(b) = opts.bit_depth {
        return BitDepth::Int { bits: b };
    }
    if opts.narrow && opts.narrow_full_range {
        return BitDepth::Int { bits: *rng.pick(&[13u32, 14, 15, 15]) };
    }
    if opts.narrow {
        return BitDepth::Int { bits: *rng.pick(&[1u32, 2, 4, 8, 8, 8, 10, 12, 5, 7, 11]) };
    }
    match rng.below(10) {
        0..=3 => BitDepth::Int { bits: 8 },
        4 => BitDepth::Int { bits: 16 },
        5 => BitDepth::Int { bits: *rng.pick(&[10u32, 12, 14]) },
        6 => BitDepth::Int { bits: rng.u32range(1, 7) },
        7 => BitDepth::Int { bits: rng.u32range(17, 31) },
        8 if opts.allow_float => *rng.pick(&[
            BitDepth::Float { bits: 32, exp_bits: 8 },
            BitDepth::Float { bits: 16, exp_bits: 5 },
            BitDepth::Float { bits: 24, exp_bits: 7 },
        ]),
        _ => BitDepth::Int { bits: rng.u32range(1, 24) },
    }
}

/// Generate a single-frame lossless Modular image.
pub fn gen_modular_image(rng: &mut Rng, opts: &ImgOpts) -> Option<ModularImage> {
    let gss = match rng.below(6) {
        0 | 1 | 2 => 0u32,
        3 => 1,
        4 => 2,
        _ => 3,
    };
    let gss = opts.group_size_shift.unwrap_or(gss);
    let gdim = 128u32 << gss;
    let (w, h) = match opts.fixed_dims {
        Some(d) => d,
        None => random_dims(rng, opts.size_class, opts.max_dim, gdim),
    };
    let grey = rng.chance(1, 3);
    let depth = random_depth(rng, opts);
    let n_ec = if opts.max_extra == 0 { 0 } else { match rng.below(5) { 0 | 1 => 0, 2 => 1, _ => rng.urange(0, opts.max_extra) } };
    let mut ec_info = Vec::new();
    for i in 0..n_ec {
        let ty = match rng.below(6) {
            0 | 1 => EcType::Alpha { associated: rng.bool() },
            2 => EcType::Depth,
            3 => EcType::SelectionMask,
            4 => EcType::Thermal,
            _ => EcType::Optional,
        };
        let bd = if opts.narrow { random_depth(rng, opts) } else if rng.chance(1, 2) { depth } else { random_depth(rng, &ImgOpts { allow_float: false, ..opts.clone() }) };
        let dim_shift = if opts.ec_dim_shift && rng.chance(1, 3) { rng.u32range(1, 3) } else { 0 };
        let name = if rng.chance(1, 3) { format!("ec{i}") } else { String::new() };
        ec_info.push(if matches!(ty, EcType::Alpha { associated: false }) && bd == BitDepth::default() && dim_shift == 0 && name.is_empty() && rng.bool() {
            ExtraChannelInfo::default_alpha()
        } else {
            ExtraChannelInfo::new(ty, bd, dim_shift, &name)
        });
    }
    let mut md = ImageMetadata::plain(depth, grey, ec_info);
    // all sample depths that take part decide about narrow buffers
    let max_bits = std::iter::once(depth.bits()).chain(md.ec_info.iter().map(|e| e.bit_depth.bits())).max().unwrap();
    let narrow = opts.narrow || (max_bits <= 12 && rng.chance(1, 2));
    md.modular_16bit_buffers = narrow;
    if opts.orientation && rng.chance(2, 3) {
        md.orientation = rng.u32range(1, 8);
        md.extra_fields = true;
    }
    let ih = ImageHeader { size: SizeHeader::with_random_repr(w, h, rng), metadata: md };
    let mut fh = FrameHeader::modular(&ih);
    fh.group_size_shift = gss;
    // passes: only meaningful with squeeze; random pass structure
    if opts.allow_squeeze_passes && rng.chance(1, 4) {
        fh.passes = crate::hgen::random_passes(rng);
    }
    let infos = modular_channel_infos(&ih, &fh);
    let layout = group_layout(&fh);
    if layout.num_groups() as u64 * layout.num_passes() as u64 > 400 {
        return None;
    }
    let is_float = matches!(depth, BitDepth::Float { .. });
    let bits = depth.bits();
    // nominal and hard ranges
    let (sample_lo, sample_hi) = if is_float {
        // bit patterns: keep positive finite-looking patterns plus sign bit variety via range
        if bits >= 32 { (i32::MIN as i64 / 2, i32::MAX as i64 / 2) } else { (0, (1i64 << bits) - 1) }
    } else {
        (0, (1i64 << bits) - 1)
    };
    let (range_lo, range_hi) = if narrow {
        // "16-bit buffers suffice" is only claimed for what <= 12-bit samples can produce at
        // any stage (+-(2^12 - 1)): that is the domain the decoder's narrow kernels are written
        // for (e.g. 4a - 3c - b of the squeeze tendency must fit 16 bits).
        if opts.narrow_full_range { (i16::MIN as i64, i16::MAX as i64) } else { (-4095i64, 4095i64) }
    } else {
        let m = (sample_hi - sample_lo).max(1);
        ((sample_lo - m).max(i32::MIN as i64 + 1), (sample_hi + m).min(i32::MAX as i64))
    };
    let wide_values = bits > 24 || is_float;
    let mopts = ModularOpts {
        bit_depth: bits,
        range_lo,
        range_hi,
        sample_lo,
        sample_hi,
        allow_wp: true,
        allow_lz77: true,
        plain_entropy: opts.plain_entropy,
        local_tree_pct: if opts.allow_local { 25 } else { 0 },
        local_transform_pct: if opts.allow_local && !wide_values { 15 } else { 0 },
        transforms: opts.force_transforms.clone(),
        // RCT / squeeze arithmetic needs head-room; keep very wide samples untransformed
        max_transforms: if wide_values || (narrow && opts.narrow_full_range) { 0 } else { opts.max_transforms },
        force_tree: None,
        palette_special: opts.palette_special,
        force_gens: None,
    };
    let enc = encode_modular(rng, &infos, &layout, &mopts)?;
    // multi-pass frames need channels in passes other than the last only via squeeze shifts;
    // fine either way.
    let rs1 = rng.bool();
    // optional preview frame (its size comes from the preview header)
    let mut ih = ih;
    let mut preview_info = None;
    let mut preview_frame: Option<(ImageHeader, FrameHeader, Vec<BitWriter>)> = None;
    if opts.preview > 0 && rng.chance(1, 10) {
        let (pw, ph) = if rng.bool() { (rng.u32range(1, 24), rng.u32range(1, 24)) } else { (rng.u32range(1, 300), rng.u32range(1, 300)) };
        let mut pmd = ih.metadata.clone();
        pmd.extra_fields = pmd.needs_extra_fields();
        let pih = ImageHeader { size: SizeHeader::new(pw, ph), metadata: pmd };
        let pfh = FrameHeader::modular(&pih);
        let differs = pfh.toc_entries() != FrameHeader::modular(&ih).toc_entries();
        if opts.preview == 2 || !differs {
            let pinfos = modular_channel_infos(&pih, &pfh);
            let playout = group_layout(&pfh);
            let pm = ModularOpts { transforms: None, max_transforms: 1, local_transform_pct: 0, ..mopts.clone() };
            if let Some(penc) = encode_modular(rng, &pinfos, &playout, &pm) {
                let psections = modular_frame_sections(&pfh, &penc, &plain_lf_global_prefix());
                ih.metadata.preview = Some(PreviewHeader::with_random_repr(pw, ph, rng));
                ih.metadata.all_default = false;
                ih.metadata.extra_fields = true;
                preview_info = Some((pw, ph, differs));
                preview_frame = Some((pih, pfh, psections));
            }
        }
    }
    let mut out = write_codestream_header(&ih, rng, rs1, None);
    if let Some((pih, pfh, psections)) = preview_frame {
        write_frame(&mut out, rng, &pih, &pfh, psections, false, false);
    }
    let sections = modular_frame_sections(&fh, &enc, &plain_lf_global_prefix());
    let permute = rng.chance(1, 4);
    let rs2 = rng.bool();
    let fl = write_frame(&mut out, rng, &ih, &fh, sections, permute, rs2);
    let num_color = fh.encoded_color_channels(&ih);
    let desc = format!(
        "{}x{} {} bd={:?} ec={} gss={} passes={} narrow={} perm={} orient={}",
        w, h, if grey { "grey" } else { "rgb" }, depth, n_ec, gss, fh.passes.num_passes, narrow, permute, ih.metadata.orientation
    );
    Some(ModularImage {
        bytes: out,
        ih,
        fh,
        infos,
        truth: enc.channels.clone(),
        desc,
        enc_desc: enc.desc.clone(),
        frame_layout: fl,
        num_color,
        hard_range: (range_lo, range_hi),
        track: enc.track,
        nonzero_residuals: enc.nonzero_residuals,
        num_samples: enc.num_samples,
        transforms: enc.transforms.clone(),
        preview: preview_info,
    })
}

pub fn unused(_: &BitWriter) {}
