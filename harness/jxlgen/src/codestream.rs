//! Frame and codestream assembly.

use crate::bits::BitWriter;
use crate::headers::*;
use crate::modmodel::ChanInfo;
use crate::modular::{EncodedModular, GroupLayout};
use crate::rng::Rng;

/// Channel list (untransformed) of the Modular stream of a frame: colour channels (Modular
/// encoding only) followed by the extra channels with their shifts.
pub fn modular_channel_infos(ih: &ImageHeader, fh: &FrameHeader) -> Vec<ChanInfo> {
    let (cw, ch) = fh.color_sample_size();
    let mut v = Vec::new();
    if fh.modular {
        for _ in 0..fh.encoded_color_channels(ih) {
            v.push(ChanInfo { w: cw as usize, h: ch as usize, hshift: 0, vshift: 0 });
        }
    }
    let cs = fh.upsampling.trailing_zeros();
    for (e, &up) in ih.metadata.ec_info.iter().zip(&fh.ec_upsampling) {
        let s = up.trailing_zeros() + e.dim_shift - cs;
        let add = (1u32 << s) - 1;
        v.push(ChanInfo {
            w: ((cw + add) >> s) as usize,
            h: ((ch + add) >> s) as usize,
            hshift: s as i32,
            vshift: s as i32,
        });
    }
    v
}

pub fn group_layout(fh: &FrameHeader) -> GroupLayout {
    let (cw, ch) = fh.color_sample_size();
    GroupLayout::new(
        cw,
        ch,
        fh.group_dim(),
        GroupLayout::pass_shifts_from(fh.passes.num_passes, &fh.passes.downsample, &fh.passes.last_pass),
    )
}

#[derive(Clone, Debug)]
pub struct FrameLayoutInfo {
    /// byte offset of the frame start within the codestream
    pub offset: usize,
    /// end of frame header + TOC (start of section data), relative to the codestream
    pub data_start: usize,
    /// (start, end) byte ranges of the sections in file order, relative to the codestream
    pub sections: Vec<(usize, usize)>,
    pub end: usize,
}

/// Sections of a frame in logical order (LfGlobal, LfGroup*, HfGlobal, PassGroup*), as bit
/// writers (not yet padded).
pub fn modular_frame_sections(fh: &FrameHeader, enc: &EncodedModular, lf_global_prefix: &BitWriter) -> Vec<BitWriter> {
    let mut secs = Vec::new();
    let mut g = lf_global_prefix.clone();
    g.append_bits(&enc.global);
    secs.push(g);
    for l in &enc.lf_groups {
        secs.push(l.clone().unwrap_or_default());
    }
    secs.push(BitWriter::new()); // HfGlobal: nothing for Modular frames
    for p in &enc.pass_groups {
        for gq in p {
            secs.push(gq.clone().unwrap_or_default());
        }
    }
    let _ = fh;
    secs
}

/// LfGlobal bits preceding the global modular stream for a frame without patches / splines /
/// noise: only the LF dequantisation `all_default` bit.
pub fn plain_lf_global_prefix() -> BitWriter {
    let mut bw = BitWriter::new();
    bw.bool(true);
    bw
}

/// Write a frame (header, TOC, sections) into `out` (byte aligned at entry and exit).
pub fn write_frame(
    out: &mut Vec<u8>,
    rng: &mut Rng,
    ih: &ImageHeader,
    fh: &FrameHeader,
    sections: Vec<BitWriter>,
    permute: bool,
    random_selectors: bool,
) -> FrameLayoutInfo {
    let offset = out.len();
    let mut bw = if random_selectors { BitWriter::with_random_selectors(rng.fork()) } else { BitWriter::new() };
    fh.write(&mut bw, ih);
    let entries = fh.toc_entries() as usize;
    let secs_bytes: Vec<Vec<u8>> = if entries == 1 {
        // single entry: all sections concatenated bit-wise
        let mut all = BitWriter::new();
        for s in &sections {
            all.append_bits(s);
        }
        vec![all.finish()]
    } else {
        assert_eq!(sections.len(), entries, "section count");
        sections.into_iter().map(|s| s.finish()).collect()
    };
    // permutation[i] = position in the file of logical section i
    let perm: Option<Vec<usize>> = if permute && entries > 1 {
        let mut p: Vec<usize> = (0..entries).collect();
        match rng.below(3) {
            0 => p.reverse(),
            1 => rng.shuffle(&mut p),
            _ => {
                let a = rng.below(entries as u64) as usize;
                let b = rng.below(entries as u64) as usize;
                p.swap(a, b);
            }
        }
        Some(p)
    } else if permute {
        Some(vec![0])
    } else {
        None
    };
    let mut order: Vec<usize> = vec![0; entries]; // order[k] = logical section at file position k
    match &perm {
        Some(p) => {
            for (i, &k) in p.iter().enumerate() {
                order[k] = i;
            }
        }
        None => {
            for (i, o) in order.iter_mut().enumerate() {
                *o = i;
            }
        }
    }
    let sizes: Vec<u32> = order.iter().map(|&i| secs_bytes[i].len() as u32).collect();
    write_toc(&mut bw, rng, &sizes, perm.as_deref());
    let head = bw.finish();
    out.extend_from_slice(&head);
    let data_start = out.len();
    let mut ranges = Vec::new();
    for &i in &order {
        let s = out.len();
        out.extend_from_slice(&secs_bytes[i]);
        ranges.push((s, out.len()));
    }
    FrameLayoutInfo { offset, data_start, sections: ranges, end: out.len() }
}

/// Start a codestream: signature + headers (+ caller-written ICC) and pad to byte.
pub fn write_codestream_header(ih: &ImageHeader, rng: &mut Rng, random_selectors: bool, icc: Option<&dyn Fn(&mut BitWriter, &mut Rng)>) -> Vec<u8> {
    let mut bw = if random_selectors { BitWriter::with_random_selectors(rng.fork()) } else { BitWriter::new() };
    ih.write(&mut bw);
    if ih.metadata.colour_encoding.want_icc {
        let f = icc.expect("want_icc needs an ICC writer");
        f(&mut bw, rng);
    }
    bw.finish()
}
