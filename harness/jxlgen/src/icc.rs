//! Encoder for the JPEG XL ICC profile compression (ISO/IEC 18181-1, "encoded ICC stream"; the
//! scheme of libjxl's `icc_codec`), written from the format definition as the algebraic inverse
//! of every decoder command. No decoder code is called or copied here.
//!
//! Layers
//! 1. `encode_icc_stream*`: profile bytes -> *encoded ICC stream* =
//!    `Varint(output_size) Varint(commands_size) commands data`. The profile is described as
//!    (a) header: the first min(128, size) bytes as residuals (mod 256) against the predicted
//!        header, the prediction reading *already produced* bytes 4..7 (for 80..83) and 40, 41 (for
//!        the platform signature 41..43);
//!    (b) tag list: `Varint(num_tags + 1)` (0 = no tag list), then one command per tag:
//!        tagcode 1 = tag string from the data stream, 2 = 'rTRC' + implied 'gTRC','bTRC' with the
//!        same start/size, 3 = 'rXYZ' + implied 'gXYZ' (start+size), 'bXYZ' (start+2*size),
//!        4..=20 = string table, 0 = end; bit 64 = explicit tagstart (default previous start +
//!        previous size, initially 128 + 12*num_tags and 0), bit 128 = explicit tagsize (default 20
//!        for rXYZ gXYZ bXYZ kXYZ wtpt bkpt lumi, else previous size);
//!    (c) main content: 1 = N raw bytes, 2 / 3 = N bytes stored de-interleaved with width 2 / 4,
//!        4 = predicted run (flags: bits 0-1 width-1 in {1,2,4}, bits 2-3 order 0..2, bit 4
//!        explicit stride; stride >= width and stride*4 < bytes produced so far; data
//!        de-interleaved with `width`), 10 = "XYZ " 0 0 0 0 + 12 data bytes, 16..=23 = type
//!        string + 4 zero bytes.
//! 2. `write_icc*`: `U64(enc_size)`, an entropy code with 41 contexts, one symbol per byte of
//!    the encoded stream; the context of byte i is 0 for i <= 128, else 1 + kind1(prev byte) +
//!    8 * kind2(byte before that).
//! 3. generators of *inconsistent* encodings (`IccHostile`) and of encodings on which the text
//!    of the format and the reference implementation are lenient/ambiguous (`IccLenient`).
//!
//! Interleaving convention. The format says: the N stored bytes are written row by row into a
//! matrix with `width` rows, the last column may miss elements at its bottom, and the result is
//! the transposed matrix read row by row. `ShuffleConv::Transpose` is exactly that (the stored
//! form is the column-major reading of the output seen as rows of `width` bytes with a partial
//! last row). libjxl's loop (`j += ceil(N/width)`, wrap to `++s` when `j >= N`) yields the same
//! permutation except for width 4 with N % 4 in {1, 2} (more than one missing element);
//! `ShuffleConv::LibjxlStride` reproduces that loop. `IccStyle::allow_partial4` controls whether
//! such lengths are produced at all.

use crate::bits::BitWriter;
use crate::entropy::*;
use crate::rng::Rng;

pub const ICC_NUM_CONTEXTS: u32 = 41;

/// Tag strings of tagcodes 4..=20.
pub const TAG_STRINGS: [&[u8; 4]; 17] = [
    b"cprt", b"wtpt", b"bkpt", b"rXYZ", b"gXYZ", b"bXYZ", b"kXYZ", b"rTRC", b"gTRC", b"bTRC",
    b"kTRC", b"chad", b"desc", b"chrm", b"dmnd", b"dmdd", b"lumi",
];

/// Type strings of main commands 16..=23.
pub const TYPE_STRINGS: [&[u8; 4]; 8] = [
    b"XYZ ", b"desc", b"text", b"mluc", b"para", b"curv", b"sf32", b"gbd ",
];

fn tag_default_size_is_20(tag: &[u8]) -> bool {
    matches!(
        tag,
        b"rXYZ" | b"gXYZ" | b"bXYZ" | b"kXYZ" | b"wtpt" | b"bkpt" | b"lumi"
    )
}

// ---------------------------------------------------------------------------------------------
// small pieces

pub fn push_varint(out: &mut Vec<u8>, mut v: u64) {
    loop {
        let b = (v & 0x7f) as u8;
        v >>= 7;
        if v == 0 {
            out.push(b);
            return;
        }
        out.push(b | 0x80);
    }
}

/// Same value, `pad` redundant all-zero groups appended (non-minimal but well-formed).
pub fn push_varint_padded(out: &mut Vec<u8>, v: u64, pad: usize) {
    let start = out.len();
    push_varint(out, v);
    if pad == 0 {
        return;
    }
    let last = out.len() - 1;
    out[last] |= 0x80;
    for _ in 0..pad - 1 {
        out.push(0x80);
    }
    out.push(0);
    debug_assert!(out.len() - start <= 9);
}

fn be32(b: &[u8]) -> u32 {
    u32::from_be_bytes([b[0], b[1], b[2], b[3]])
}

/// Predicted value of header byte `i` (< 128) of a profile of `size` bytes; `p` holds the
/// profile, only indices < i are read (bytes the decoder has already produced).
pub fn header_prediction(i: usize, size: u32, p: &[u8]) -> u8 {
    match i {
        0..=3 => size.to_be_bytes()[i],
        8 => 4,
        12..=23 => b"mntrRGB XYZ "[i - 12],
        36..=39 => b"acsp"[i - 36],
        41..=43 => {
            let s: Option<&[u8; 4]> = match p[40] {
                b'A' => Some(b"APPL"),
                b'M' => Some(b"MSFT"),
                // for 'S' the second letter decides, so byte 41 itself is not predicted
                b'S' if i >= 42 && p[41] == b'G' => Some(b"SGI "),
                b'S' if i >= 42 && p[41] == b'U' => Some(b"SUNW"),
                _ => None,
            };
            s.map_or(0, |s| s[i - 40])
        }
        70 => 246,
        71 => 214,
        73 => 1,
        78 => 211,
        79 => 45,
        80..=83 => p[i - 76],
        _ => 0,
    }
}

#[derive(Clone, Copy, Debug, PartialEq, Eq)]
pub enum ShuffleConv {
    /// transpose of the output matrix (rows of `width` bytes, partial last row)
    Transpose,
    /// libjxl's constant-stride loop
    LibjxlStride,
}

/// Encoder side of the interleaving: `out` is the byte run as it must appear in the profile,
/// the result is what has to be stored in the data stream.
pub fn deinterleave(out: &[u8], width: usize, conv: ShuffleConv) -> Vec<u8> {
    let n = out.len();
    if width <= 1 || n == 0 {
        return out.to_vec();
    }
    match conv {
        ShuffleConv::Transpose => {
            let mut stored = Vec::with_capacity(n);
            for c in 0..width {
                let mut i = c;
                while i < n {
                    stored.push(out[i]);
                    i += width;
                }
            }
            stored
        }
        ShuffleConv::LibjxlStride => {
            let height = (n + width - 1) / width;
            let mut stored = vec![0u8; n];
            let (mut s, mut j) = (0usize, 0usize);
            for &b in out {
                stored[j] = b;
                j += height;
                if j >= n {
                    s += 1;
                    j = s;
                }
            }
            stored
        }
    }
}

/// Do the two conventions store this run differently?
pub fn conventions_differ(len: usize, width: usize) -> bool {
    width == 4 && matches!(len % 4, 1 | 2) && len >= 5
}

/// Residuals of a predicted run: `p[pos..pos+num]` against the order-`order` linear prediction
/// from the `width`-byte big-endian values `stride`, `2*stride`, `3*stride` bytes back.
/// Requires `stride >= width` and `3*stride <= pos` (implied by `4*stride < pos`).
pub fn prediction_residuals(
    p: &[u8],
    pos: usize,
    num: usize,
    width: usize,
    order: usize,
    stride: usize,
) -> Vec<u8> {
    let mut res = Vec::with_capacity(num);
    let modulus_mask: u64 = if width == 4 { 0xffff_ffff } else { (1u64 << (8 * width)) - 1 };
    let mut i = 0;
    while i < num {
        let base = pos + i;
        let val = |k: usize| -> i128 {
            let off = base - stride * k;
            let mut v: u64 = 0;
            for j in 0..width {
                v = (v << 8) | p[off + j] as u64;
            }
            v as i128
        };
        let pred: i128 = match order {
            0 => val(1),
            1 => 2 * val(1) - val(2),
            _ => 3 * val(1) - 3 * val(2) + val(3),
        };
        let pred = (pred.rem_euclid(modulus_mask as i128 + 1)) as u64;
        for j in 0..width.min(num - i) {
            let pb = (pred >> (8 * (width - 1 - j))) as u8;
            res.push(p[base + j].wrapping_sub(pb));
        }
        i += width;
    }
    res
}

// ---------------------------------------------------------------------------------------------
// style and statistics

pub const ALLOW_RAW: u32 = 1;
pub const ALLOW_SHUFFLE2: u32 = 2;
pub const ALLOW_SHUFFLE4: u32 = 4;
pub const ALLOW_PREDICT: u32 = 8;
pub const ALLOW_XYZ: u32 = 16;
pub const ALLOW_TYPE: u32 = 32;
pub const ALLOW_ALL: u32 = 63;

#[derive(Clone, Debug)]
pub struct IccStyle {
    /// header residuals + `v = 0` + a single raw copy of everything after byte 128
    pub simplest: bool,
    /// percent chance of writing a tag list when the profile has >= 132 bytes
    pub taglist_pct: u32,
    /// Only code a tag entry by a tag command when `num_tags <= (size-128)/12` and
    /// `tagstart + tagsize <= size` hold (plausibility limits some decoders impose although the
    /// format text has none); other entries are left to the main content.
    pub conservative_tags: bool,
    pub shuffle_conv: ShuffleConv,
    /// produce width-4 runs whose length is 1 or 2 mod 4
    pub allow_partial4: bool,
    pub padded_varints: bool,
    pub zero_len_cmds: bool,
    /// typical length of a main-content segment
    pub seg_scale: usize,
    /// bit set of ALLOW_*
    pub allow: u32,
    /// percent chance of taking a shortcut (tag table string, triple, XYZ, type) when applicable
    pub shortcut_pct: u32,
    /// stop producing commands once the command stream has this many bytes (rest = one raw copy)
    pub max_commands: usize,
}

impl IccStyle {
    pub fn simplest() -> Self {
        Self {
            simplest: true,
            taglist_pct: 0,
            conservative_tags: true,
            shuffle_conv: ShuffleConv::Transpose,
            allow_partial4: false,
            padded_varints: false,
            zero_len_cmds: false,
            seg_scale: 64,
            allow: ALLOW_RAW,
            shortcut_pct: 0,
            max_commands: 1 << 20,
        }
    }

    /// A random segmentation policy for a profile of `len` bytes.
    pub fn random(rng: &mut Rng, len: usize) -> Self {
        let seg_scale = match rng.below(5) {
            0 => rng.urange(1, 6),
            1 => rng.urange(4, 24),
            2 => rng.urange(16, 100),
            3 => rng.urange(64, 600),
            _ => rng.urange(1, len.max(1)),
        };
        // keep the number of commands bounded for large inputs
        let seg_scale = seg_scale.max(len / 3000);
        let allow = match rng.below(6) {
            0 => ALLOW_RAW | ALLOW_PREDICT,
            1 => ALLOW_RAW | ALLOW_SHUFFLE2 | ALLOW_SHUFFLE4,
            2 => ALLOW_PREDICT | ALLOW_XYZ | ALLOW_TYPE,
            _ => ALLOW_ALL,
        };
        Self {
            simplest: false,
            taglist_pct: *rng.pick(&[100u32, 100, 90, 50, 0]),
            conservative_tags: true,
            shuffle_conv: ShuffleConv::Transpose,
            allow_partial4: true,
            padded_varints: rng.chance(1, 6),
            zero_len_cmds: rng.chance(1, 6),
            seg_scale: seg_scale.max(1),
            allow,
            shortcut_pct: *rng.pick(&[100u32, 90, 90, 50, 0]),
            max_commands: 30000,
        }
    }
}

#[derive(Clone, Debug, Default)]
pub struct IccStats {
    pub size: usize,
    pub commands_size: usize,
    pub data_size: usize,
    pub no_taglist: bool,
    pub taglist: bool,
    pub num_tags_field: u64,
    pub tags_explicit: u32,
    pub tags_known: u32,
    pub tags_trc3: u32,
    pub tags_xyz3: u32,
    pub tag_flag_start: u32,
    pub tag_flag_size: u32,
    pub tag_default_start: u32,
    pub tag_default_size20: u32,
    pub tag_default_size_prev: u32,
    /// tag commands whose entry violates the "plausibility limits" (see `conservative_tags`)
    pub tags_out_of_range: u32,
    pub num_tags_over_size: bool,
    pub taglist_term0: bool,
    pub taglist_term_end: bool,
    pub raw: u32,
    pub shuffle2: u32,
    pub shuffle4: u32,
    /// [width index 0,1,2 = 1,2,4][order]
    pub predict: [[u32; 3]; 3],
    pub predict_explicit_stride: u32,
    pub predict_far_stride: u32,
    pub predict_max_stride: u32,
    pub xyz: u32,
    pub types: [u32; 8],
    /// runs with len % width != 0
    pub partial_runs: u32,
    /// width-4 runs on which the two interleaving conventions differ
    pub partial4_diff: u32,
    pub zero_len: u32,
    pub padded_varints: u32,
    pub capped: bool,
}

impl IccStats {
    pub fn num_predict(&self) -> u32 {
        self.predict.iter().flatten().sum()
    }
    pub fn num_main_commands(&self) -> u32 {
        self.raw
            + self.shuffle2
            + self.shuffle4
            + self.num_predict()
            + self.xyz
            + self.types.iter().sum::<u32>()
    }
    pub fn num_tag_commands(&self) -> u32 {
        self.tags_explicit + self.tags_known + self.tags_trc3 + self.tags_xyz3
    }

    /// Class of the multiset of commands used (which kinds occur, not how often).
    pub fn class(&self) -> String {
        let mut s = String::new();
        if self.size <= 128 {
            s.push_str(if self.size == 128 { "H128" } else if self.size == 0 { "H0" } else { "H<" });
            return s;
        }
        s.push_str("T:");
        if self.no_taglist {
            s.push('0');
        } else {
            if self.tags_explicit > 0 {
                s.push('e');
            }
            if self.tags_known > 0 {
                s.push('k');
            }
            if self.tags_trc3 > 0 {
                s.push('t');
            }
            if self.tags_xyz3 > 0 {
                s.push('x');
            }
            if self.tag_flag_start > 0 {
                s.push('S');
            }
            if self.tag_flag_size > 0 {
                s.push('Z');
            }
            if self.tag_default_size20 > 0 {
                s.push('d');
            }
            if self.taglist_term_end {
                s.push('$');
            }
            if self.tags_out_of_range > 0 || self.num_tags_over_size {
                s.push('!');
            }
        }
        s.push_str("|M:");
        if self.raw > 0 {
            s.push('r');
        }
        if self.shuffle2 > 0 {
            s.push('2');
        }
        if self.shuffle4 > 0 {
            s.push('4');
        }
        if self.xyz > 0 {
            s.push('X');
        }
        if self.types.iter().any(|&t| t > 0) {
            s.push('y');
        }
        if self.num_predict() > 0 {
            s.push_str("|P:w");
            for (wi, w) in [1, 2, 4].iter().enumerate() {
                if self.predict[wi].iter().any(|&c| c > 0) {
                    s.push_str(&w.to_string());
                }
            }
            s.push('o');
            for o in 0..3 {
                if (0..3).any(|wi| self.predict[wi][o] > 0) {
                    s.push_str(&o.to_string());
                }
            }
            if self.predict_explicit_stride > 0 {
                s.push('s');
            }
            if self.predict_far_stride > 0 {
                s.push('F');
            }
        }
        if self.partial_runs > 0 {
            s.push_str("|p");
        }
        if self.zero_len > 0 {
            s.push_str("|z");
        }
        if self.padded_varints > 0 {
            s.push_str("|v");
        }
        s
    }
}

/// The parts of an encoded ICC stream before assembly.
#[derive(Clone, Debug)]
pub struct IccParts {
    pub size: u64,
    pub commands: Vec<u8>,
    pub data: Vec<u8>,
    pub stats: IccStats,
    /// number of profile bytes described by `commands` + `data`
    pub produced: usize,
}

impl IccParts {
    pub fn assemble(&self) -> Vec<u8> {
        assemble(self.size, self.commands.len() as u64, &self.commands, &self.data, (0, 0))
    }
}

pub fn assemble(
    output_size: u64,
    commands_size_field: u64,
    commands: &[u8],
    data: &[u8],
    pad: (usize, usize),
) -> Vec<u8> {
    let mut s = Vec::with_capacity(commands.len() + data.len() + 12);
    push_varint_padded(&mut s, output_size, pad.0);
    push_varint_padded(&mut s, commands_size_field, pad.1);
    s.extend_from_slice(commands);
    s.extend_from_slice(data);
    s
}

// ---------------------------------------------------------------------------------------------
// the encoder

struct Enc<'a> {
    p: &'a [u8],
    style: &'a IccStyle,
    cmds: Vec<u8>,
    data: Vec<u8>,
    pos: usize,
    stats: IccStats,
}

impl<'a> Enc<'a> {
    fn varint(&mut self, rng: &mut Rng, v: u64) {
        if self.style.padded_varints && rng.chance(1, 5) {
            let minimal = {
                let mut t = Vec::new();
                push_varint(&mut t, v);
                t.len()
            };
            let pad = rng.urange(1, (8 - minimal).max(1).min(3));
            push_varint_padded(&mut self.cmds, v, pad);
            self.stats.padded_varints += 1;
        } else {
            push_varint(&mut self.cmds, v);
        }
    }

    fn header(&mut self) {
        let n = self.p.len();
        let h = n.min(128);
        for i in 0..h {
            let pred = header_prediction(i, n as u32, self.p);
            self.data.push(self.p[i].wrapping_sub(pred));
        }
        self.pos = h;
    }

    fn entry(&self, i: usize) -> (&'a [u8], u32, u32) {
        let o = 132 + 12 * i;
        (&self.p[o..o + 4], be32(&self.p[o + 4..]), be32(&self.p[o + 8..]))
    }

    fn in_range(&self, start: u32, size: u32) -> bool {
        start as u64 + size as u64 <= self.p.len() as u64
    }

    /// Tag list. Returns false when no tag list was written (`v = 0`).
    fn taglist(&mut self, rng: &mut Rng, limit: usize) {
        let n = self.p.len();
        debug_assert!(n > 128);
        let want = !self.style.simplest
            && n >= 132
            && limit >= 132
            && rng.below(100) < self.style.taglist_pct as u64;
        let num_tags = if n >= 132 { be32(&self.p[128..]) as u64 } else { 0 };
        let over = num_tags > (n as u64 - 128) / 12;
        if !want || (over && self.style.conservative_tags) {
            self.varint(rng, 0);
            self.stats.no_taglist = true;
            return;
        }
        self.stats.taglist = true;
        self.stats.num_tags_field = num_tags;
        self.stats.num_tags_over_size = over;
        self.varint(rng, num_tags + 1);
        self.pos = 132;
        // entries physically present (and inside the part we are asked to describe)
        let m = (limit.min(n) - 132) / 12;
        let natural = (num_tags.min(m as u64)) as usize;
        let k = match rng.below(8) {
            0 => rng.urange(0, m),
            1 => m,
            _ => natural,
        };
        let mut prev_start: u64 = 128 + 12 * num_tags;
        let mut prev_size: u64 = 0;
        let mut i = 0usize;
        while i < k {
            let (tag, start, size) = self.entry(i);
            let ok = self.in_range(start, size);
            if !ok && self.style.conservative_tags {
                break;
            }
            // candidate codes
            let shortcut = rng.below(100) < self.style.shortcut_pct as u64;
            let mut code: u8 = 1;
            let mut consumed = 1usize;
            if shortcut {
                let mut cands: Vec<(u8, usize)> = Vec::new();
                for (ti, t) in TAG_STRINGS.iter().enumerate() {
                    if tag == &t[..] {
                        cands.push((4 + ti as u8, 1));
                    }
                }
                if i + 2 < m {
                    let (t1, s1, z1) = self.entry(i + 1);
                    let (t2, s2, z2) = self.entry(i + 2);
                    if tag == b"rTRC"
                        && t1 == b"gTRC"
                        && t2 == b"bTRC"
                        && (s1, z1) == (start, size)
                        && (s2, z2) == (start, size)
                    {
                        cands.push((2, 3));
                        cands.push((2, 3));
                    }
                    if tag == b"rXYZ"
                        && t1 == b"gXYZ"
                        && t2 == b"bXYZ"
                        && z1 == size
                        && z2 == size
                        && s1 as u64 == start as u64 + size as u64
                        && s2 as u64 == start as u64 + 2 * size as u64
                    {
                        cands.push((3, 3));
                        cands.push((3, 3));
                    }
                }
                if !cands.is_empty() {
                    let c = *rng.pick(&cands);
                    code = c.0;
                    consumed = c.1;
                }
            }
            let default_start = prev_start + prev_size;
            let default_size: u64 = if tag_default_size_is_20(tag) { 20 } else { prev_size };
            let flag_start = default_start != start as u64 || rng.chance(1, 8);
            let flag_size = default_size != size as u64 || rng.chance(1, 8);
            let mut command = code;
            if flag_start {
                command |= 64;
            }
            if flag_size {
                command |= 128;
            }
            self.cmds.push(command);
            if code == 1 {
                self.data.extend_from_slice(tag);
            }
            if flag_start {
                self.varint(rng, start as u64);
                self.stats.tag_flag_start += 1;
            } else {
                self.stats.tag_default_start += 1;
            }
            if flag_size {
                self.varint(rng, size as u64);
                self.stats.tag_flag_size += 1;
            } else if default_size == 20 && tag_default_size_is_20(tag) {
                self.stats.tag_default_size20 += 1;
            } else {
                self.stats.tag_default_size_prev += 1;
            }
            match code {
                1 => self.stats.tags_explicit += 1,
                2 => self.stats.tags_trc3 += 1,
                3 => self.stats.tags_xyz3 += 1,
                _ => self.stats.tags_known += 1,
            }
            if !ok {
                self.stats.tags_out_of_range += 1;
            }
            prev_start = start as u64;
            prev_size = size as u64;
            i += consumed;
            self.pos = 132 + 12 * i;
        }
    }

    fn raw(&mut self, rng: &mut Rng, len: usize) {
        self.cmds.push(1);
        self.varint(rng, len as u64);
        self.data.extend_from_slice(&self.p[self.pos..self.pos + len]);
        self.pos += len;
        self.stats.raw += 1;
        if len == 0 {
            self.stats.zero_len += 1;
        }
    }

    fn note_partial(&mut self, len: usize, width: usize) {
        if width > 1 && len % width != 0 {
            self.stats.partial_runs += 1;
        }
        if conventions_differ(len, width) {
            self.stats.partial4_diff += 1;
        }
    }

    fn shuffle(&mut self, rng: &mut Rng, len: usize, width: usize) {
        self.cmds.push(if width == 2 { 2 } else { 3 });
        self.varint(rng, len as u64);
        let stored = deinterleave(&self.p[self.pos..self.pos + len], width, self.style.shuffle_conv);
        self.data.extend_from_slice(&stored);
        self.pos += len;
        if width == 2 {
            self.stats.shuffle2 += 1;
        } else {
            self.stats.shuffle4 += 1;
        }
        self.note_partial(len, width);
        if len == 0 {
            self.stats.zero_len += 1;
        }
    }

    fn predict(
        &mut self,
        rng: &mut Rng,
        len: usize,
        width: usize,
        order: usize,
        stride: usize,
        explicit: bool,
    ) {
        debug_assert!(stride >= width && stride * 4 < self.pos);
        debug_assert!(explicit || stride == width);
        let flags = (width as u8 - 1) | ((order as u8) << 2) | if explicit { 16 } else { 0 };
        self.cmds.push(4);
        self.cmds.push(flags);
        if explicit {
            self.varint(rng, stride as u64);
            self.stats.predict_explicit_stride += 1;
        }
        self.varint(rng, len as u64);
        let res = prediction_residuals(self.p, self.pos, len, width, order, stride);
        let stored = deinterleave(&res, width, self.style.shuffle_conv);
        self.data.extend_from_slice(&stored);
        let wi = match width {
            1 => 0,
            2 => 1,
            _ => 2,
        };
        self.stats.predict[wi][order] += 1;
        if stride > 4 * width {
            self.stats.predict_far_stride += 1;
        }
        if stride == (self.pos - 1) / 4 {
            self.stats.predict_max_stride += 1;
        }
        self.note_partial(len, width);
        if len == 0 {
            self.stats.zero_len += 1;
        }
        self.pos += len;
    }

    fn seg_len(&self, rng: &mut Rng, rem: usize) -> usize {
        let l = match rng.below(10) {
            0 | 1 => rng.urange(1, 8),
            2 => rem,
            3 => self.style.seg_scale,
            _ => rng.urange(1, self.style.seg_scale * 2),
        };
        l.clamp(1, rem)
    }

    /// Adjust a run length for `width` according to the style; 0 = not possible.
    fn fit_len(&self, rng: &mut Rng, len: usize, width: usize) -> usize {
        let mut len = len;
        if width > 1 && len >= width && rng.chance(2, 3) {
            len -= len % width;
        }
        if !self.style.allow_partial4 && conventions_differ(len, width) {
            len -= len % 4;
        }
        len
    }

    fn main_content(&mut self, rng: &mut Rng, limit: usize) {
        let st = self.style;
        while self.pos < limit {
            let rem = limit - self.pos;
            if st.simplest {
                self.raw(rng, rem);
                break;
            }
            if self.cmds.len() >= st.max_commands {
                self.stats.capped = true;
                self.raw(rng, rem);
                break;
            }
            if st.zero_len_cmds && rng.chance(1, 40) {
                match rng.below(3) {
                    0 if st.allow & ALLOW_RAW != 0 => self.raw(rng, 0),
                    1 if st.allow & (ALLOW_SHUFFLE2 | ALLOW_SHUFFLE4) != 0 => {
                        let w = if rng.bool() { 2 } else { 4 };
                        self.shuffle(rng, 0, w)
                    }
                    _ if st.allow & ALLOW_PREDICT != 0 && self.pos > 4 => {
                        let order = rng.below(3) as usize;
                        self.predict(rng, 0, 1, order, 1, false)
                    }
                    _ => {}
                }
            }
            // shortcuts
            let here = &self.p[self.pos..limit];
            let shortcut = rng.below(100) < st.shortcut_pct as u64;
            if shortcut && rem >= 8 && here[4..8] == [0, 0, 0, 0] {
                if st.allow & ALLOW_XYZ != 0 && &here[..4] == b"XYZ " && rem >= 20 && rng.chance(3, 4) {
                    self.cmds.push(10);
                    self.data.extend_from_slice(&here[8..20]);
                    self.pos += 20;
                    self.stats.xyz += 1;
                    continue;
                }
                if st.allow & ALLOW_TYPE != 0 {
                    if let Some(t) = TYPE_STRINGS.iter().position(|t| &here[..4] == &t[..]) {
                        self.cmds.push(16 + t as u8);
                        self.pos += 8;
                        self.stats.types[t] += 1;
                        continue;
                    }
                }
            }
            // ordinary commands
            let mut kinds: Vec<u32> = Vec::new();
            if st.allow & ALLOW_RAW != 0 {
                kinds.extend_from_slice(&[0, 0]);
            }
            if st.allow & ALLOW_SHUFFLE2 != 0 {
                kinds.push(1);
            }
            if st.allow & ALLOW_SHUFFLE4 != 0 {
                kinds.push(2);
            }
            if st.allow & ALLOW_PREDICT != 0 && self.pos > 4 {
                kinds.extend_from_slice(&[3, 3, 3, 3]);
            }
            let kind = if kinds.is_empty() { 0 } else { *rng.pick(&kinds) };
            let mut len = self.seg_len(rng, rem);
            // end the segment where a type shortcut could start (most of the time), so that
            // shortcuts are reachable although segment boundaries are random
            if shortcut && st.allow & (ALLOW_XYZ | ALLOW_TYPE) != 0 && len >= 2 && rng.chance(4, 5) {
                let end = (self.pos + len).min(limit.saturating_sub(8));
                let mut q = self.pos + 1;
                while q < end {
                    if self.p[q + 4..q + 8] == [0, 0, 0, 0]
                        && TYPE_STRINGS.iter().any(|t| self.p[q..q + 4] == t[..])
                    {
                        len = q - self.pos;
                        break;
                    }
                    q += 1;
                }
            }
            match kind {
                1 | 2 => {
                    let width = if kind == 1 { 2 } else { 4 };
                    let len = self.fit_len(rng, len, width);
                    if len == 0 {
                        self.raw(rng, rem.min(3));
                    } else {
                        self.shuffle(rng, len, width);
                    }
                }
                3 => {
                    // stride * 4 < pos  <=>  stride <= (pos - 1) / 4
                    let max_stride = (self.pos - 1) / 4;
                    let widths: Vec<usize> =
                        [1usize, 2, 4].into_iter().filter(|&w| w <= max_stride).collect();
                    let width = *rng.pick(&widths);
                    let order = rng.below(3) as usize;
                    let len = self.fit_len(rng, len, width);
                    if len == 0 {
                        self.raw(rng, rem.min(3));
                        continue;
                    }
                    let (stride, explicit) = match rng.below(10) {
                        0..=3 => (width, false),
                        4 => (width, true),
                        5 | 6 => (rng.urange(width, max_stride.min(width * 16)), true),
                        7 => (max_stride, true),
                        8 => {
                            // a multiple of the width (table with `k` interleaved columns)
                            let k = rng.urange(1, (max_stride / width).min(64));
                            (width * k, true)
                        }
                        _ => (rng.urange(width, max_stride), true),
                    };
                    self.predict(rng, len, width, order, stride, explicit);
                }
                _ => self.raw(rng, len),
            }
        }
    }
}

fn encode_parts_until(profile: &[u8], rng: &mut Rng, style: &IccStyle, stop_at: Option<usize>) -> IccParts {
    let n = profile.len();
    let mut e = Enc {
        p: profile,
        style,
        cmds: Vec::new(),
        data: Vec::new(),
        pos: 0,
        stats: IccStats::default(),
    };
    e.stats.size = n;
    e.header();
    if n > 128 {
        let limit = stop_at.unwrap_or(n).clamp(128, n);
        e.taglist(rng, limit);
        let limit = limit.max(e.pos);
        // terminator: needed whenever main content follows a tag list
        if e.stats.taglist {
            if e.pos == limit && stop_at.is_none() && rng.chance(1, 2) {
                e.stats.taglist_term_end = true;
            } else {
                e.cmds.push(0);
                e.stats.taglist_term0 = true;
            }
        }
        e.main_content(rng, limit);
    }
    e.stats.commands_size = e.cmds.len();
    e.stats.data_size = e.data.len();
    IccParts {
        size: n as u64,
        commands: e.cmds,
        data: e.data,
        stats: e.stats,
        produced: e.pos,
    }
}

/// Encode `profile` completely.
pub fn encode_icc_parts(profile: &[u8], rng: &mut Rng, style: &IccStyle) -> IccParts {
    let parts = encode_parts_until(profile, rng, style, None);
    debug_assert_eq!(parts.produced, profile.len());
    parts
}

/// The encoded ICC stream (before entropy coding) plus what was used to build it.
pub fn encode_icc_stream_ex(profile: &[u8], rng: &mut Rng, style: &IccStyle) -> (Vec<u8>, IccStats) {
    let parts = encode_icc_parts(profile, rng, style);
    let pad = if style.padded_varints && rng.chance(1, 3) {
        (rng.urange(0, 2), rng.urange(0, 2))
    } else {
        (0, 0)
    };
    let mut stats = parts.stats.clone();
    stats.padded_varints += (pad.0 > 0) as u32 + (pad.1 > 0) as u32;
    (
        assemble(parts.size, parts.commands.len() as u64, &parts.commands, &parts.data, pad),
        stats,
    )
}

pub fn encode_icc_stream(profile: &[u8], rng: &mut Rng, style: &IccStyle) -> Vec<u8> {
    encode_icc_stream_ex(profile, rng, style).0
}

// ---------------------------------------------------------------------------------------------
// inconsistent encodings: every one of these must be rejected

#[derive(Clone, Copy, Debug, PartialEq, Eq)]
pub enum IccHostile {
    /// output_size larger than what header/commands produce
    OutputSizeBigger,
    /// output_size (> 128) smaller than what the commands produce
    OutputSizeSmaller,
    /// commands_size reaches beyond the end of the stream
    CommandsSizeBeyond,
    /// the command stream ends inside the tag list although output_size says more follows
    EndsInTagList,
    /// predicted run with stride * 4 >= bytes produced so far
    StrideTooLarge,
    /// predicted run with stride * 4 == bytes produced so far (the exact boundary)
    StrideBoundary,
    /// explicit stride smaller than the width
    StrideBelowWidth,
    Width3,
    Order3,
    /// num_tags does not fit 32 bits
    NumTagsHuge,
    /// data stream shorter than what header + commands consume
    TruncatedData,
    UnknownMainCommand,
    UnknownTagCode,
    /// a command whose operands are cut off by the end of the command stream
    TruncatedCommand,
    /// output_size > 128 but no commands at all
    NoCommands,
}

pub const ALL_HOSTILE: [IccHostile; 15] = [
    IccHostile::OutputSizeBigger,
    IccHostile::OutputSizeSmaller,
    IccHostile::CommandsSizeBeyond,
    IccHostile::EndsInTagList,
    IccHostile::StrideTooLarge,
    IccHostile::StrideBoundary,
    IccHostile::StrideBelowWidth,
    IccHostile::Width3,
    IccHostile::Order3,
    IccHostile::NumTagsHuge,
    IccHostile::TruncatedData,
    IccHostile::UnknownMainCommand,
    IccHostile::UnknownTagCode,
    IccHostile::TruncatedCommand,
    IccHostile::NoCommands,
];

impl IccHostile {
    pub fn name(&self) -> &'static str {
        match self {
            IccHostile::OutputSizeBigger => "output-size-bigger",
            IccHostile::OutputSizeSmaller => "output-size-smaller",
            IccHostile::CommandsSizeBeyond => "commands-size-beyond",
            IccHostile::EndsInTagList => "ends-in-taglist",
            IccHostile::StrideTooLarge => "stride-too-large",
            IccHostile::StrideBoundary => "stride-boundary",
            IccHostile::StrideBelowWidth => "stride-below-width",
            IccHostile::Width3 => "width3",
            IccHostile::Order3 => "order3",
            IccHostile::NumTagsHuge => "num-tags-huge",
            IccHostile::TruncatedData => "truncated-data",
            IccHostile::UnknownMainCommand => "unknown-command",
            IccHostile::UnknownTagCode => "unknown-tagcode",
            IccHostile::TruncatedCommand => "truncated-command",
            IccHostile::NoCommands => "no-commands",
        }
    }
}

fn junk(rng: &mut Rng, n: usize) -> Vec<u8> {
    (0..n).map(|_| rng.next_u64() as u8).collect()
}

#[derive(Clone, Debug)]
pub struct IccHostileStream {
    pub stream: Vec<u8>,
    /// the command stream ends inside the tag list (no terminator, no main content)
    pub ends_in_taglist: bool,
}

/// An encoded ICC stream that is inconsistent in the way `kind` says, derived from `profile`.
/// `None` when this profile cannot carry that inconsistency (e.g. too short).
pub fn encode_hostile(profile: &[u8], rng: &mut Rng, kind: IccHostile) -> Option<IccHostileStream> {
    let mut ends = kind == IccHostile::EndsInTagList;
    let stream = encode_hostile_inner(profile, rng, kind, &mut ends)?;
    Some(IccHostileStream { stream, ends_in_taglist: ends })
}

fn encode_hostile_inner(profile: &[u8], rng: &mut Rng, kind: IccHostile, ends: &mut bool) -> Option<Vec<u8>> {
    let n = profile.len();
    let mut style = IccStyle::random(rng, n);
    style.padded_varints = false;
    match kind {
        IccHostile::OutputSizeBigger => {
            let parts = encode_icc_parts(profile, rng, &style);
            *ends = parts.stats.taglist_term_end;
            let delta = if rng.bool() { 1 } else { rng.urange(1, 400) } as u64;
            Some(assemble(n as u64 + delta, parts.commands.len() as u64, &parts.commands, &parts.data, (0, 0)))
        }
        IccHostile::OutputSizeSmaller => {
            if n < 130 {
                return None;
            }
            let parts = encode_icc_parts(profile, rng, &style);
            *ends = parts.stats.taglist_term_end;
            let new = if rng.bool() { n - 1 } else { rng.urange(129, n - 1) };
            Some(assemble(new as u64, parts.commands.len() as u64, &parts.commands, &parts.data, (0, 0)))
        }
        IccHostile::CommandsSizeBeyond => {
            let parts = encode_icc_parts(profile, rng, &style);
            let total = (parts.commands.len() + parts.data.len()) as u64;
            let cs = total + if rng.bool() { 1 } else { 1 + rng.below(1 << 20) };
            Some(assemble(n as u64, cs, &parts.commands, &parts.data, (0, 0)))
        }
        IccHostile::EndsInTagList => {
            if n < 133 {
                return None;
            }
            // describe only header + tag count + some tag entries, no terminator, nothing else
            let mut st = style.clone();
            st.taglist_pct = 100;
            let m = (n - 132) / 12;
            let stop = 132 + 12 * rng.urange(0, m.min(8));
            if stop >= n {
                return None;
            }
            let mut e = Enc {
                p: profile,
                style: &st,
                cmds: Vec::new(),
                data: Vec::new(),
                pos: 0,
                stats: IccStats::default(),
            };
            e.header();
            e.taglist(rng, stop);
            if !e.stats.taglist {
                // implausible num_tags field: write just the tag count ourselves
                e.cmds.clear();
                push_varint(&mut e.cmds, be32(&profile[128..]) as u64 + 1);
                e.pos = 132;
            }
            let parts = IccParts {
                size: n as u64,
                commands: e.cmds,
                data: e.data,
                stats: e.stats,
                produced: e.pos,
            };
            if parts.produced >= n {
                return None;
            }
            Some(assemble(n as u64, parts.commands.len() as u64, &parts.commands, &parts.data, (0, 0)))
        }
        IccHostile::StrideTooLarge
        | IccHostile::StrideBoundary
        | IccHostile::StrideBelowWidth
        | IccHostile::Width3
        | IccHostile::Order3
        | IccHostile::UnknownMainCommand
        | IccHostile::TruncatedCommand => {
            if n < 140 {
                return None;
            }
            // valid description of profile[..cut], then the offending command
            let mut cut = rng.urange(132, n);
            if kind == IccHostile::StrideBoundary {
                cut -= cut % 4;
            }
            let mut parts = encode_parts_until(profile, rng, &style, Some(cut));
            let pos = parts.produced;
            if kind == IccHostile::StrideBoundary && pos % 4 != 0 {
                // the tag list went past the cut: pad with a raw copy up to a multiple of 4
                let add = 4 - pos % 4;
                if pos + add > n {
                    return None;
                }
                parts.commands.push(1);
                push_varint(&mut parts.commands, add as u64);
                parts.data.extend_from_slice(&profile[pos..pos + add]);
                parts.produced += add;
            }
            let pos = parts.produced;
            let rem = n - pos;
            let c = &mut parts.commands;
            let mut data_needed = 0usize;
            match kind {
                IccHostile::StrideTooLarge => {
                    let width = *rng.pick(&[1usize, 2, 4]);
                    let min_bad = (pos + 3) / 4; // smallest stride with stride*4 >= pos
                    let stride = match rng.below(3) {
                        0 => min_bad,
                        1 => rng.urange(min_bad, pos + 8),
                        _ => min_bad + rng.below(1 << 30) as usize,
                    }
                    .max(width);
                    c.push(4);
                    c.push((width as u8 - 1) | ((rng.below(3) as u8) << 2) | 16);
                    push_varint(c, stride as u64);
                    data_needed = rem; // everything else consistent: only the offending field is wrong
                    push_varint(c, data_needed as u64);
                }
                IccHostile::StrideBoundary => {
                    let stride = pos / 4;
                    let widths: Vec<usize> = [1usize, 2, 4].into_iter().filter(|&w| w <= stride).collect();
                    let width = *rng.pick(&widths);
                    c.push(4);
                    c.push((width as u8 - 1) | ((rng.below(3) as u8) << 2) | 16);
                    push_varint(c, stride as u64);
                    data_needed = rem; // everything else consistent: only the offending field is wrong
                    push_varint(c, data_needed as u64);
                }
                IccHostile::StrideBelowWidth => {
                    let width = *rng.pick(&[2usize, 4]);
                    let stride = rng.urange(0, width - 1);
                    c.push(4);
                    c.push((width as u8 - 1) | ((rng.below(3) as u8) << 2) | 16);
                    push_varint(c, stride as u64);
                    data_needed = rem; // everything else consistent: only the offending field is wrong
                    push_varint(c, data_needed as u64);
                }
                IccHostile::Width3 => {
                    let explicit = rng.bool();
                    c.push(4);
                    c.push(2 | ((rng.below(3) as u8) << 2) | if explicit { 16 } else { 0 });
                    if explicit {
                        push_varint(c, rng.urange(3, 8) as u64);
                    }
                    data_needed = rem; // everything else consistent: only the offending field is wrong
                    push_varint(c, data_needed as u64);
                }
                IccHostile::Order3 => {
                    let width = *rng.pick(&[1usize, 2, 4]);
                    let explicit = rng.bool();
                    c.push(4);
                    c.push((width as u8 - 1) | (3 << 2) | if explicit { 16 } else { 0 });
                    if explicit {
                        push_varint(c, rng.urange(width, width + 4) as u64);
                    }
                    data_needed = rem; // everything else consistent: only the offending field is wrong
                    push_varint(c, data_needed as u64);
                }
                IccHostile::UnknownMainCommand => {
                    let bad: u8 = loop {
                        let b = match rng.below(3) {
                            0 => *rng.pick(&[0u8, 5, 9, 11, 15, 24, 255]),
                            _ => rng.next_u64() as u8,
                        };
                        if !matches!(b, 1 | 2 | 3 | 4 | 10 | 16..=23) {
                            break b;
                        }
                    };
                    c.push(bad);
                    if rng.bool() {
                        push_varint(c, rem as u64);
                        data_needed = rem;
                    }
                }
                _ => {
                    // TruncatedCommand: operands missing
                    match rng.below(5) {
                        0 => c.push(1),
                        1 => c.push(*rng.pick(&[2u8, 3])),
                        2 => c.push(4),
                        3 => {
                            c.push(4);
                            c.push(rng.below(3) as u8 * 4 + *rng.pick(&[0u8, 1, 3]));
                        }
                        _ => {
                            c.push(4);
                            c.push(16 | rng.below(3) as u8 * 4);
                        }
                    }
                }
            }
            let j = junk(rng, data_needed);
            parts.data.extend_from_slice(&j);
            Some(assemble(n as u64, parts.commands.len() as u64, &parts.commands, &parts.data, (0, 0)))
        }
        IccHostile::NumTagsHuge => {
            if n < 132 {
                return None;
            }
            let mut st = style.clone();
            st.taglist_pct = 0;
            let parts = encode_icc_parts(profile, rng, &st);
            // replace the leading Varint(0) by Varint(num_tags + 1) with num_tags >= 2^32
            debug_assert_eq!(parts.commands.first(), Some(&0));
            let mut cmds = Vec::new();
            let nt = (1u64 << 32) + rng.below(1 << 20) * if rng.bool() { 1 } else { 1 << 12 };
            push_varint(&mut cmds, nt + 1);
            cmds.push(0);
            cmds.extend_from_slice(&parts.commands[1..]);
            Some(assemble(n as u64, cmds.len() as u64, &cmds, &parts.data, (0, 0)))
        }
        IccHostile::TruncatedData => {
            if n == 0 {
                return None;
            }
            let parts = encode_icc_parts(profile, rng, &style);
            if parts.data.is_empty() {
                return None;
            }
            let cutn = if rng.bool() { 1 } else { rng.urange(1, parts.data.len().min(64)) };
            let d = &parts.data[..parts.data.len() - cutn];
            Some(assemble(n as u64, parts.commands.len() as u64, &parts.commands, d, (0, 0)))
        }
        IccHostile::UnknownTagCode => {
            if n < 144 {
                return None;
            }
            let mut st = style.clone();
            st.taglist_pct = 100;
            let stop = 132 + 12 * rng.urange(0, ((n - 132) / 12).min(6));
            let mut e = Enc {
                p: profile,
                style: &st,
                cmds: Vec::new(),
                data: Vec::new(),
                pos: 0,
                stats: IccStats::default(),
            };
            e.header();
            e.taglist(rng, stop);
            if !e.stats.taglist {
                e.cmds.clear();
                push_varint(&mut e.cmds, 1);
            }
            let bad = rng.urange(21, 63) as u8 | *rng.pick(&[0u8, 64, 128, 192]);
            e.cmds.push(bad);
            if bad & 64 != 0 {
                push_varint(&mut e.cmds, 128);
            }
            if bad & 128 != 0 {
                push_varint(&mut e.cmds, 0);
            }
            e.cmds.push(0);
            e.cmds.push(1);
            let rem = n.saturating_sub(e.pos + 12);
            push_varint(&mut e.cmds, rem as u64);
            let j = junk(rng, rem);
            e.data.extend_from_slice(&j);
            Some(assemble(n as u64, e.cmds.len() as u64, &e.cmds, &e.data, (0, 0)))
        }
        IccHostile::NoCommands => {
            if n <= 128 {
                return None;
            }
            let mut data = Vec::new();
            for i in 0..128 {
                data.push(profile[i].wrapping_sub(header_prediction(i, n as u32, profile)));
            }
            data.extend_from_slice(&profile[128..]);
            Some(assemble(n as u64, 0, &[], &data, (0, 0)))
        }
    }
}

// ---------------------------------------------------------------------------------------------
// encodings on which implementations are lenient (the reference decoder rejects them as "not all
// data / commands used"); if a decoder accepts them the output must still be the profile

#[derive(Clone, Copy, Debug, PartialEq, Eq)]
pub enum IccLenient {
    /// unused bytes after the data every command consumed
    TrailingData,
    /// a profile of <= 128 bytes with a non-empty command stream
    UnusedCommands,
}

pub fn encode_lenient(profile: &[u8], rng: &mut Rng, kind: IccLenient) -> Option<Vec<u8>> {
    let n = profile.len();
    let style = IccStyle::random(rng, n);
    let parts = encode_icc_parts(profile, rng, &style);
    match kind {
        IccLenient::TrailingData => {
            let mut d = parts.data.clone();
            let extra = rng.urange(1, 40);
            d.extend_from_slice(&junk(rng, extra));
            Some(assemble(n as u64, parts.commands.len() as u64, &parts.commands, &d, (0, 0)))
        }
        IccLenient::UnusedCommands => {
            if n > 128 {
                return None;
            }
            let cmds: Vec<u8> = match rng.below(3) {
                0 => vec![0],
                1 => vec![1, 0],
                _ => vec![0, 16],
            };
            Some(assemble(n as u64, cmds.len() as u64, &cmds, &parts.data, (0, 0)))
        }
    }
}

// ---------------------------------------------------------------------------------------------
// entropy layer

fn kind1(b: u8) -> u32 {
    match b {
        b'a'..=b'z' | b'A'..=b'Z' => 0,
        b'0'..=b'9' | b'.' | b',' => 1,
        0 => 2,
        1 => 3,
        2..=15 => 4,
        255 => 6,
        241..=254 => 5,
        _ => 7,
    }
}

fn kind2(b: u8) -> u32 {
    match b {
        b'a'..=b'z' | b'A'..=b'Z' => 0,
        b'0'..=b'9' | b'.' | b',' => 1,
        0..=15 => 2,
        241..=255 => 3,
        _ => 4,
    }
}

/// Context of byte `i` of the encoded stream; `b1` = previous byte, `b2` = the one before.
pub fn icc_context(i: usize, b1: u8, b2: u8) -> u32 {
    if i <= 128 {
        0
    } else {
        1 + kind1(b1) + 8 * kind2(b2)
    }
}

pub fn icc_reads(stream: &[u8]) -> Vec<Read> {
    let mut reads = Vec::with_capacity(stream.len());
    let (mut b1, mut b2) = (0u8, 0u8);
    for (i, &b) in stream.iter().enumerate() {
        reads.push(Read { ctx: icc_context(i, b1, b2), value: b as u32 });
        b2 = b1;
        b1 = b;
    }
    reads
}

#[derive(Clone, Copy, Debug, PartialEq, Eq)]
pub enum IccEntropyFault {
    None,
    /// one symbol >= 256
    SymbolOutOfRange,
    /// ANS stream whose final state is not the initial constant
    BadFinalState,
}

#[derive(Clone, Debug)]
pub struct IccEntropyOpts {
    pub use_prefix: Option<bool>,
    /// percent chance of LZ77
    pub lz77_pct: u32,
    pub plain: bool,
    pub fault: IccEntropyFault,
}

impl Default for IccEntropyOpts {
    fn default() -> Self {
        Self { use_prefix: None, lz77_pct: 30, plain: false, fault: IccEntropyFault::None }
    }
}

#[derive(Clone, Debug)]
pub struct IccCodeInfo {
    pub use_prefix: bool,
    pub lz77: bool,
    pub copies: usize,
    pub clusters: usize,
    pub log_alpha: u32,
    pub header_bits: usize,
    pub total_bits: usize,
    /// the fault was actually applied
    pub fault: IccEntropyFault,
}

impl IccCodeInfo {
    pub fn class(&self) -> String {
        format!(
            "{}{}|c{}",
            if self.use_prefix { "prefix" } else { "ans" },
            if self.copies > 0 { "+lz" } else if self.lz77 { "+lz0" } else { "" },
            match self.clusters {
                1 => "1",
                2..=8 => "2-8",
                _ => ">8",
            }
        )
    }
}

/// `U64(enc_size)`, entropy code (41 contexts), one symbol per stream byte.
pub fn write_icc_stream(bw: &mut BitWriter, stream: &[u8], rng: &mut Rng, eo: &IccEntropyOpts) -> IccCodeInfo {
    let start_bits = bw.bits_written();
    let mut reads = icc_reads(stream);
    let mut fault = IccEntropyFault::None;
    if eo.fault == IccEntropyFault::SymbolOutOfRange && !reads.is_empty() {
        let i = rng.below(reads.len() as u64) as usize;
        reads[i].value = match rng.below(3) {
            0 => 256,
            1 => 256 + rng.below(256) as u32,
            _ => 256 + rng.below(1 << 16) as u32,
        };
        fault = IccEntropyFault::SymbolOutOfRange;
    }
    let max_lit = reads.iter().map(|r| r.value).max().unwrap_or(0);
    let mut use_prefix = eo.use_prefix.unwrap_or_else(|| rng.bool());
    if eo.fault == IccEntropyFault::BadFinalState && !reads.is_empty() {
        use_prefix = false;
        fault = IccEntropyFault::BadFinalState;
    }
    let want_lz = reads.len() >= 4 && rng.below(100) < eo.lz77_pct as u64;
    let mut opts = BuildOpts { use_prefix: Some(use_prefix), plain: eo.plain, ..Default::default() };
    let mut items: Vec<Item> = Vec::new();
    let mut code: Option<EntropyCode> = None;
    if want_lz {
        for _ in 0..6 {
            let lz = random_lz77_params(rng, use_prefix, max_lit);
            let pct = rng.u32range(5, 80);
            items = plan_lz77(rng, &reads, &lz, 0, pct, if use_prefix { 1 << 15 } else { 256 });
            opts.lz77 = Some(lz);
            if let Some(c) = EntropyCode::try_build(rng, ICC_NUM_CONTEXTS, &items, &opts) {
                code = Some(c);
                break;
            }
        }
    }
    let code = match code {
        Some(c) => c,
        None => {
            opts.lz77 = None;
            items = lits(&reads);
            match EntropyCode::try_build(rng, ICC_NUM_CONTEXTS, &items, &opts) {
                Some(c) => c,
                None => {
                    // out-of-range symbols may not fit a small ANS alphabet: prefix always fits
                    opts.use_prefix = Some(true);
                    EntropyCode::build(rng, ICC_NUM_CONTEXTS, &items, &opts)
                }
            }
        }
    };
    bw.u64(stream.len() as u64);
    code.write_header(bw, rng);
    let header_bits = bw.bits_written() - start_bits;
    if fault == IccEntropyFault::BadFinalState && !code.use_prefix {
        let fs = loop {
            let x = 0x130000u32 ^ (1 << rng.below(32));
            if x >= 1 << 16 {
                break x;
            }
        };
        code.write_items_final_state(bw, &items, fs);
    } else {
        if fault == IccEntropyFault::BadFinalState {
            fault = IccEntropyFault::None;
        }
        code.write_items(bw, &items);
    }
    IccCodeInfo {
        use_prefix: code.use_prefix,
        lz77: code.lz77.is_some(),
        copies: items.iter().filter(|i| matches!(i, Item::Copy { .. })).count(),
        clusters: code.hists.len(),
        log_alpha: code.log_alpha,
        header_bits,
        total_bits: bw.bits_written() - start_bits,
        fault,
    }
}

#[derive(Clone, Debug)]
pub struct IccWriteOpts {
    pub style: IccStyle,
    pub entropy: IccEntropyOpts,
}

#[derive(Clone, Debug)]
pub struct IccWritten {
    /// the encoded ICC stream that was entropy coded
    pub stream: Vec<u8>,
    pub stats: IccStats,
    pub code: IccCodeInfo,
}

/// Write the ICC part of a codestream (what follows the image header when `want_icc` is set):
/// `U64(enc_size)`, entropy code, symbols. No byte alignment is added.
pub fn write_icc(bw: &mut BitWriter, profile: &[u8], rng: &mut Rng, opts: &IccWriteOpts) -> IccWritten {
    let (stream, stats) = encode_icc_stream_ex(profile, rng, &opts.style);
    let code = write_icc_stream(bw, &stream, rng, &opts.entropy);
    IccWritten { stream, stats, code }
}

// ---------------------------------------------------------------------------------------------
// structured random profiles

/// A syntactically plausible profile: 128-byte header, tag table with `ntags` entries whose
/// payloads are shared / overlapping in various ways, payloads of the common types.
pub fn random_structured_profile(rng: &mut Rng, ntags: usize) -> Vec<u8> {
    let mut p = vec![0u8; 128];
    // header
    let cmm: &[u8; 4] = *rng.pick(&[b"lcms", b"appl", b"ADBE", b"jxl ", b"\0\0\0\0"]);
    p[4..8].copy_from_slice(cmm);
    p[8] = *rng.pick(&[2u8, 4, 4, 5]);
    p[9] = *rng.pick(&[0u8, 0x10, 0x20, 0x30, 0x40]);
    p[12..16].copy_from_slice(*rng.pick(&[b"mntr", b"mntr", b"scnr", b"prtr", b"spac", b"abst"]));
    p[16..20].copy_from_slice(*rng.pick(&[b"RGB ", b"RGB ", b"GRAY", b"CMYK", b"Lab ", b"XYZ "]));
    p[20..24].copy_from_slice(*rng.pick(&[b"XYZ ", b"XYZ ", b"Lab "]));
    for b in &mut p[24..36] {
        *b = if rng.chance(1, 2) { 0 } else { rng.below(60) as u8 };
    }
    p[24] = 7;
    p[36..40].copy_from_slice(if rng.chance(9, 10) { b"acsp" } else { b"acsq" });
    let plat: &[u8; 4] = *rng.pick(&[
        b"APPL", b"MSFT", b"SGI ", b"SUNW", b"APPX", b"MSFX", b"SGX ", b"SUNX", b"SXYZ", b"*nix",
        b"\0\0\0\0", b"AAAA", b"MMMM", b"SGGG", b"SUUU",
    ]);
    p[40..44].copy_from_slice(plat);
    p[67] = rng.below(4) as u8;
    if rng.chance(4, 5) {
        p[68..80].copy_from_slice(&[0, 0, 0xf6, 0xd6, 0, 1, 0, 0, 0, 0, 0xd3, 0x2d]);
    } else {
        for b in &mut p[68..80] {
            *b = rng.next_u64() as u8;
        }
    }
    if rng.chance(3, 4) {
        let c: [u8; 4] = [p[4], p[5], p[6], p[7]];
        p[80..84].copy_from_slice(&c);
    } else {
        p[80..84].copy_from_slice(*rng.pick(&[b"lcms", b"none", b"\0\0\0\0"]));
    }
    if rng.chance(1, 3) {
        for b in &mut p[84..100] {
            *b = rng.next_u64() as u8;
        }
    }
    // payloads
    let mut payloads: Vec<Vec<u8>> = Vec::new();
    let npay = if ntags == 0 { 0 } else { rng.urange(1, ntags) };
    for _ in 0..npay {
        let mut d = Vec::new();
        match rng.below(8) {
            0 => {
                d.extend_from_slice(b"XYZ \0\0\0\0");
                for _ in 0..3 {
                    d.extend_from_slice(&(rng.below(1 << 17) as u32).to_be_bytes());
                }
            }
            1 => {
                let f = rng.below(5) as u16;
                d.extend_from_slice(b"para\0\0\0\0");
                d.extend_from_slice(&f.to_be_bytes());
                d.extend_from_slice(&[0, 0]);
                for _ in 0..[1, 3, 4, 5, 7][f as usize] {
                    d.extend_from_slice(&(rng.below(1 << 18) as u32).to_be_bytes());
                }
            }
            2 => {
                let cnt = match rng.below(4) {
                    0 => 0,
                    1 => 1,
                    2 => rng.urange(2, 40),
                    _ => rng.urange(40, 1200),
                };
                d.extend_from_slice(b"curv\0\0\0\0");
                d.extend_from_slice(&(cnt as u32).to_be_bytes());
                let g = 1.0 + rng.f64() * 2.0;
                for i in 0..cnt {
                    let x = i as f64 / (cnt.max(2) - 1) as f64;
                    let v = (x.powf(g) * 65535.0) as u16;
                    d.extend_from_slice(&v.to_be_bytes());
                }
            }
            3 => {
                let text: Vec<u16> = (0..rng.urange(1, 40)).map(|_| 32 + rng.below(90) as u16).collect();
                d.extend_from_slice(b"mluc\0\0\0\0");
                d.extend_from_slice(&1u32.to_be_bytes());
                d.extend_from_slice(&12u32.to_be_bytes());
                d.extend_from_slice(b"enUS");
                d.extend_from_slice(&((text.len() * 2) as u32).to_be_bytes());
                d.extend_from_slice(&28u32.to_be_bytes());
                for c in text {
                    d.extend_from_slice(&c.to_be_bytes());
                }
            }
            4 => {
                d.extend_from_slice(b"text\0\0\0\0");
                for _ in 0..rng.urange(1, 80) {
                    d.push(*rng.pick(b"abcdefghij klmnop.,0123456789ABCXYZ"));
                }
                d.push(0);
            }
            5 => {
                d.extend_from_slice(b"sf32\0\0\0\0");
                let mut v = rng.next_u32() >> 12;
                let step = rng.below(5000) as u32;
                for _ in 0..rng.urange(1, 30) {
                    d.extend_from_slice(&v.to_be_bytes());
                    v = v.wrapping_add(step);
                }
            }
            6 => {
                d.extend_from_slice(b"desc\0\0\0\0");
                let l = rng.urange(1, 30);
                d.extend_from_slice(&(l as u32).to_be_bytes());
                for _ in 0..l {
                    d.push(b'a' + rng.below(26) as u8);
                }
                d.extend_from_slice(&[0; 12]);
            }
            _ => {
                d.extend_from_slice(*rng.pick(&[b"gbd ", b"mft2", b"data", b"sig "]));
                d.extend_from_slice(&[0, 0, 0, 0]);
                for _ in 0..rng.urange(0, 64) {
                    d.push(rng.next_u64() as u8);
                }
            }
        }
        // occasionally an odd length (tag sizes need not be multiples of 4)
        if rng.chance(1, 6) {
            d.push(rng.next_u64() as u8);
        }
        payloads.push(d);
    }
    // layout: payloads back to back (optionally padded to 4)
    let table_end = 132 + 12 * ntags;
    let mut offs: Vec<(u32, u32)> = Vec::new();
    let mut body: Vec<u8> = Vec::new();
    let pad4 = rng.chance(3, 4);
    for d in &payloads {
        if pad4 {
            while (table_end + body.len()) % 4 != 0 {
                body.push(0);
            }
        }
        offs.push(((table_end + body.len()) as u32, d.len() as u32));
        body.extend_from_slice(d);
    }
    // tags
    let mut names: Vec<[u8; 4]> = Vec::new();
    let style = rng.below(4);
    let mut i = 0;
    while names.len() < ntags {
        let t: [u8; 4] = match style {
            0 => **rng.pick(&TAG_STRINGS),
            1 => {
                // canonical order with the triples
                let seq: [&[u8; 4]; 12] = [
                    b"desc", b"cprt", b"wtpt", b"chad", b"rXYZ", b"gXYZ", b"bXYZ", b"rTRC", b"gTRC",
                    b"bTRC", b"lumi", b"bkpt",
                ];
                *seq[i % 12]
            }
            2 => {
                if rng.chance(1, 3) {
                    [b'A' + rng.below(26) as u8, b'a' + rng.below(26) as u8, b'0' + rng.below(10) as u8, b' ']
                } else {
                    **rng.pick(&TAG_STRINGS)
                }
            }
            _ => **rng.pick(&[b"rTRC", b"gTRC", b"bTRC", b"rXYZ", b"gXYZ", b"bXYZ", b"kTRC", b"kXYZ", b"A2B0", b"B2A0"]),
        };
        names.push(t);
        i += 1;
    }
    p.extend_from_slice(&(ntags as u32).to_be_bytes());
    let mut prev: (u32, u32) = (table_end as u32, 0);
    let mut next_pay = 0usize;
    for (ti, t) in names.iter().enumerate() {
        let (start, size) = if offs.is_empty() {
            (table_end as u32, 0)
        } else {
            match rng.below(10) {
                // same payload as the previous tag (rTRC/gTRC/bTRC sharing)
                0 | 1 if ti > 0 => prev,
                // directly after the previous one
                2..=6 => {
                    let o = offs[next_pay % offs.len()];
                    next_pay += 1;
                    o
                }
                // overlapping / arbitrary inside the body
                7 => {
                    let o = *rng.pick(&offs);
                    (o.0 + rng.below(o.1 as u64 + 1) as u32 / 2, o.1 / 2)
                }
                8 => (prev.0 + prev.1, 20),
                _ => *rng.pick(&offs),
            }
        };
        // triples: gXYZ/bXYZ right after rXYZ with equal sizes, gTRC/bTRC equal to rTRC
        let (start, size) = match (&t[..], ti) {
            (b"gTRC" | b"bTRC", 1..) if rng.chance(3, 4) => prev,
            (b"gXYZ" | b"bXYZ", 1..) if rng.chance(3, 4) => (prev.0 + prev.1, prev.1),
            _ => (start, size),
        };
        p.extend_from_slice(t);
        p.extend_from_slice(&start.to_be_bytes());
        p.extend_from_slice(&size.to_be_bytes());
        prev = (start, size);
    }
    p.extend_from_slice(&body);
    // make every referenced range exist (pad the file) - then fix up the size field
    let need = (0..ntags)
        .map(|i| {
            let o = 132 + 12 * i;
            be32(&p[o + 4..]) as u64 + be32(&p[o + 8..]) as u64
        })
        .max()
        .unwrap_or(0);
    if need > p.len() as u64 && need < (1 << 20) {
        p.resize(need as usize, 0);
    }
    if rng.chance(9, 10) {
        let n = p.len() as u32;
        p[0..4].copy_from_slice(&n.to_be_bytes());
    } else {
        let n = rng.next_u32();
        p[0..4].copy_from_slice(&n.to_be_bytes());
    }
    p
}
