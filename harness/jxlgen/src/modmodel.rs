//! Reference model of the Modular mode (from the format definition): channel-list effects of
//! transforms, neighbourhood / properties / predictors incl. the weighted ("self-correcting")
//! predictor, and the inverse transforms (RCT, palette, squeeze). All arithmetic is done in i64
//! and range-checked by the callers; nothing here shares code with the decoder.

#[derive(Clone, Debug, PartialEq)]
pub struct Channel {
    pub w: usize,
    pub h: usize,
    /// -1 for meta channels ("unshiftable")
    pub hshift: i32,
    pub vshift: i32,
    pub data: Vec<i32>,
}

impl Channel {
    pub fn new(w: usize, h: usize, hshift: i32, vshift: i32) -> Self {
        Self {
            w,
            h,
            hshift,
            vshift,
            data: vec![0; w * h],
        }
    }
    #[inline]
    pub fn at(&self, x: usize, y: usize) -> i32 {
        self.data[y * self.w + x]
    }
    #[inline]
    pub fn set(&mut self, x: usize, y: usize, v: i32) {
        self.data[y * self.w + x] = v;
    }
    pub fn same_shape(&self, o: &Channel) -> bool {
        self.w == o.w && self.h == o.h && self.hshift == o.hshift && self.vshift == o.vshift
    }
}

#[derive(Clone, Copy, Debug, PartialEq, Eq)]
pub struct ChanInfo {
    pub w: usize,
    pub h: usize,
    pub hshift: i32,
    pub vshift: i32,
}

#[derive(Clone, Copy, Debug, PartialEq, Eq)]
pub struct SqueezeParam {
    pub horizontal: bool,
    pub in_place: bool,
    pub begin_c: u32,
    pub num_c: u32,
}

#[derive(Clone, Debug, PartialEq, Eq)]
pub enum Transform {
    Rct { begin_c: u32, rct_type: u32 },
    Palette { begin_c: u32, num_c: u32, nb_colours: u32, nb_deltas: u32, d_pred: u32 },
    /// empty list = default parameters
    Squeeze(Vec<SqueezeParam>),
}

#[derive(Clone, Debug, PartialEq, Eq)]
pub struct WpHeader {
    pub default_wp: bool,
    pub p1: i64,
    pub p2: i64,
    pub p3: [i64; 5],
    pub w: [u32; 4],
}

impl Default for WpHeader {
    fn default() -> Self {
        Self {
            default_wp: true,
            p1: 16,
            p2: 10,
            p3: [7, 7, 7, 0, 0],
            w: [13, 12, 12, 12],
        }
    }
}

// ---------------------------------------------------------------------------------------------
// channel list effects of the transforms (what the sub-bitstream actually contains)

/// Default squeeze parameter list for a channel list.
pub fn default_squeeze_params(info: &[ChanInfo], nb_meta: usize) -> Vec<SqueezeParam> {
    let mut sp = Vec::new();
    let first = nb_meta;
    let count = info.len() - first;
    let mut w = info[first].w;
    let mut h = info[first].h;
    if count >= 3 && info[first + 1].w == w && info[first + 1].h == h {
        // assume 4:2:0 style chroma squeeze first
        sp.push(SqueezeParam { horizontal: true, in_place: false, begin_c: first as u32 + 1, num_c: 2 });
        sp.push(SqueezeParam { horizontal: false, in_place: false, begin_c: first as u32 + 1, num_c: 2 });
    }
    let all = |horizontal| SqueezeParam { horizontal, in_place: true, begin_c: first as u32, num_c: count as u32 };
    if h >= w && h > 8 {
        sp.push(all(false));
        h = h.div_ceil(2);
    }
    while w > 8 || h > 8 {
        if w > 8 {
            sp.push(all(true));
            w = w.div_ceil(2);
        }
        if h > 8 {
            sp.push(all(false));
            h = h.div_ceil(2);
        }
    }
    sp
}

/// Apply the channel-list effect of one transform. Returns Err when the parameters are invalid
/// for this list (generators use this to reject).
pub fn transform_info(
    tr: &Transform,
    info: &mut Vec<ChanInfo>,
    nb_meta: &mut usize,
) -> Result<(), &'static str> {
    match tr {
        Transform::Rct { begin_c, .. } => {
            let b = *begin_c as usize;
            if b + 3 > info.len() {
                return Err("rct range");
            }
            // must not straddle the meta / non-meta boundary
            if b < *nb_meta && b + 3 > *nb_meta {
                return Err("rct straddles meta boundary");
            }
            for i in 1..3 {
                if info[b + i].w != info[b].w || info[b + i].h != info[b].h {
                    return Err("rct dims");
                }
            }
            Ok(())
        }
        Transform::Palette { begin_c, num_c, nb_colours, .. } => {
            let b = *begin_c as usize;
            let n = *num_c as usize;
            if n == 0 || b + n > info.len() {
                return Err("palette range");
            }
            if b < *nb_meta {
                if b + n > *nb_meta {
                    return Err("palette straddles meta boundary");
                }
                *nb_meta = *nb_meta + 2 - n;
            } else {
                *nb_meta += 1;
            }
            for i in 1..n {
                if info[b + i].w != info[b].w || info[b + i].h != info[b].h {
                    return Err("palette dims");
                }
            }
            info.drain(b + 1..b + n);
            info.insert(0, ChanInfo { w: *nb_colours as usize, h: n, hshift: -1, vshift: -1 });
            Ok(())
        }
        Transform::Squeeze(params) => {
            let params = if params.is_empty() {
                if info.len() <= *nb_meta {
                    return Err("squeeze: no channels");
                }
                default_squeeze_params(info, *nb_meta)
            } else {
                params.clone()
            };
            for sp in &params {
                let b = sp.begin_c as usize;
                let e = b + sp.num_c as usize;
                if e > info.len() {
                    return Err("squeeze range");
                }
                if b < *nb_meta {
                    if !sp.in_place || e > *nb_meta {
                        return Err("squeeze meta");
                    }
                    *nb_meta += sp.num_c as usize;
                }
                let mut residuals = Vec::new();
                for c in b..e {
                    let ch = &mut info[c];
                    if ch.w == 0 || ch.h == 0 {
                        return Err("squeeze zero-sized");
                    }
                    if ch.hshift > 30 || ch.vshift > 30 {
                        return Err("squeeze shift");
                    }
                    let mut r = *ch;
                    if sp.horizontal {
                        let len = ch.w;
                        ch.w = len.div_ceil(2);
                        r.w = len / 2;
                        if ch.hshift >= 0 {
                            ch.hshift += 1;
                            r.hshift += 1;
                        }
                    } else {
                        let len = ch.h;
                        ch.h = len.div_ceil(2);
                        r.h = len / 2;
                        if ch.vshift >= 0 {
                            ch.vshift += 1;
                            r.vshift += 1;
                        }
                    }
                    residuals.push(r);
                }
                if sp.in_place {
                    let tail: Vec<ChanInfo> = info.drain(e..).collect();
                    info.extend(residuals);
                    info.extend(tail);
                } else {
                    info.extend(residuals);
                }
            }
            Ok(())
        }
    }
}

// ---------------------------------------------------------------------------------------------
// neighbourhood, properties, predictors

#[derive(Clone, Copy, Debug, Default)]
pub struct Nbh {
    pub w: i64,
    pub n: i64,
    pub nw: i64,
    pub ne: i64,
    pub nn: i64,
    pub nee: i64,
    pub ww: i64,
}

pub fn neighbourhood(ch: &Channel, x: usize, y: usize) -> Nbh {
    let p = |xx: usize, yy: usize| ch.at(xx, yy) as i64;
    let w = if x > 0 {
        p(x - 1, y)
    } else if y > 0 {
        p(x, y - 1)
    } else {
        0
    };
    let n = if y > 0 { p(x, y - 1) } else { w };
    let nw = if x > 0 && y > 0 { p(x - 1, y - 1) } else { w };
    let ne = if x + 1 < ch.w && y > 0 { p(x + 1, y - 1) } else { n };
    let nn = if y > 1 { p(x, y - 2) } else { n };
    let nee = if x + 2 < ch.w && y > 0 { p(x + 2, y - 1) } else { ne };
    let ww = if x > 1 { p(x - 2, y) } else { w };
    Nbh { w, n, nw, ne, nn, nee, ww }
}

fn idiv(a: i64, b: i64) -> i64 {
    // truncating division
    a / b
}

pub fn clamp_grad(n: i64, w: i64, nw: i64) -> i64 {
    (n + w - nw).clamp(n.min(w), n.max(w))
}

/// Weighted predictor state for one channel, kept as full per-pixel arrays.
pub struct WpState {
    pub hdr: WpHeader,
    pub width: usize,
    /// true_err[y][x], sub_err[y][x][i]
    pub true_err: Vec<Vec<i64>>,
    pub sub_err: Vec<Vec<[i64; 4]>>,
    /// result of the last `predict`
    pub last_pred: i64,
    pub last_sub: [i64; 4],
    pub last_max_error: i64,
}

impl WpState {
    pub fn new(hdr: &WpHeader, width: usize, height: usize) -> Self {
        Self {
            hdr: hdr.clone(),
            width,
            true_err: vec![vec![0; width]; height],
            sub_err: vec![vec![[0; 4]; width]; height],
            last_pred: 0,
            last_sub: [0; 4],
            last_max_error: 0,
        }
    }

    fn error_weight(x: i64, maxweight: u32) -> i64 {
        // shift = max(0, floor(log2(x + 1)) - 5)
        let fl = 63 - ((x + 1) as u64).leading_zeros() as i64;
        let shift = (fl - 5).max(0);
        4 + (((maxweight as i64) * ((1i64 << 24) / ((x >> shift) + 1))) >> shift)
    }

    /// Computes prediction (x8 fixed point) and the max_error property for pixel (x, y).
    pub fn predict(&mut self, nb: &Nbh, x: usize, y: usize) {
        let wd = self.width;
        let te = |s: &Self, xx: usize, yy: usize| s.true_err[yy][xx];
        let te_w = if x > 0 { te(self, x - 1, y) } else { 0 };
        let te_n = if y > 0 { te(self, x, y - 1) } else { 0 };
        let te_nw = if x > 0 && y > 0 { te(self, x - 1, y - 1) } else { te_n };
        let te_ne = if x + 1 < wd && y > 0 { te(self, x + 1, y - 1) } else { te_n };

        let n3 = nb.n << 3;
        let w3 = nb.w << 3;
        let nw3 = nb.nw << 3;
        let ne3 = nb.ne << 3;
        let nn3 = nb.nn << 3;
        let h = &self.hdr;
        let sub = [
            w3 + ne3 - n3,
            n3 - (((te_w + te_n + te_ne) * h.p1) >> 5),
            w3 - (((te_w + te_n + te_nw) * h.p2) >> 5),
            n3 - ((te_nw * h.p3[0] + te_n * h.p3[1] + te_ne * h.p3[2] + (nn3 - n3) * h.p3[3] + (nw3 - w3) * h.p3[4]) >> 5),
        ];
        // error sums over N, W, NW, WW, NE (with the edge rules), W counted twice at the right edge
        let mut weight = [0i64; 4];
        for i in 0..4 {
            let se = |s: &Self, xx: usize, yy: usize| s.sub_err[yy][xx][i];
            let e_n = if y > 0 { se(self, x, y - 1) } else { 0 };
            let e_w = if x > 0 { se(self, x - 1, y) } else { 0 };
            let e_ww = if x > 1 { se(self, x - 2, y) } else { 0 };
            let e_nw = if x > 0 && y > 0 { se(self, x - 1, y - 1) } else { e_n };
            let e_ne = if x + 1 < wd && y > 0 { se(self, x + 1, y - 1) } else { e_n };
            let mut sum = e_n + e_w + e_nw + e_ww + e_ne;
            if x + 1 == wd {
                sum += e_w;
            }
            // sums are kept in 32-bit unsigned arithmetic by the format
            let sum = (sum as u64 & 0xffff_ffff) as i64;
            weight[i] = Self::error_weight(sum, h.w[i]);
        }
        let sum_w: i64 = weight.iter().sum();
        let log_weight = 63 - (sum_w as u64).leading_zeros() as i64; // floor(log2(sum))
        for w in weight.iter_mut() {
            *w >>= log_weight - 4;
        }
        let sum_w: i64 = weight.iter().sum();
        let mut s = (sum_w >> 1) - 1;
        for i in 0..4 {
            s += sub[i] * weight[i];
        }
        let mut pred = (s * ((1i64 << 24) / sum_w)) >> 24;
        if ((te_n ^ te_w) | (te_n ^ te_nw)) <= 0 {
            let mn = n3.min(w3).min(ne3);
            let mx = n3.max(w3).max(ne3);
            pred = pred.clamp(mn, mx);
        }
        let mut max_error = te_w;
        for e in [te_n, te_nw, te_ne] {
            if e.abs() > max_error.abs() {
                max_error = e;
            }
        }
        self.last_pred = pred;
        self.last_sub = sub;
        self.last_max_error = max_error;
    }

    pub fn record(&mut self, x: usize, y: usize, value: i64) {
        let v3 = value << 3;
        // errors are stored as 32-bit integers
        self.true_err[y][x] = (self.last_pred - v3) as i32 as i64;
        for i in 0..4 {
            self.sub_err[y][x][i] = ((((self.last_sub[i] - v3).abs() + 3) >> 3) as u64 & 0xffff_ffff) as i64;
        }
    }
}

/// The 16 local properties (index 0/1 are filled by the caller) at (x, y). `prop9_prev` is the
/// value of property 9 of the previous pixel in this row (0 at x == 0).
pub fn local_properties(nb: &Nbh, x: usize, y: usize, prop9_prev: i64, max_error: i64) -> [i64; 16] {
    let wrap = |v: i64| v as i32 as i64; // properties are 32-bit
    let p9 = wrap(nb.w + nb.n - nb.nw);
    [
        0,
        0,
        y as i64,
        x as i64,
        nb.n.abs(),
        nb.w.abs(),
        nb.n,
        nb.w,
        if x > 0 { wrap(nb.w - prop9_prev) } else { nb.w },
        p9,
        wrap(nb.w - nb.nw),
        wrap(nb.nw - nb.n),
        wrap(nb.n - nb.ne),
        wrap(nb.n - nb.nn),
        wrap(nb.w - nb.ww),
        max_error,
    ]
}

/// Properties 16.. from a previous channel `pc` of identical shape.
pub fn prev_channel_properties(pc: &Channel, x: usize, y: usize) -> [i64; 4] {
    let c = pc.at(x, y) as i64;
    let rw = if x > 0 { pc.at(x - 1, y) as i64 } else { 0 };
    let rn = if y > 0 { pc.at(x, y - 1) as i64 } else { rw };
    let rnw = if x > 0 && y > 0 { pc.at(x - 1, y - 1) as i64 } else { rw };
    let rg = clamp_grad(rn, rw, rnw);
    [c.abs(), c, (c - rg).abs(), c - rg]
}

/// Prediction of predictor `p` (0..=13). For p == 6 `wp_pred` (x8) must be given.
pub fn predict(p: u32, nb: &Nbh, wp_pred: i64) -> i64 {
    match p {
        0 => 0,
        1 => nb.w,
        2 => nb.n,
        3 => idiv(nb.w + nb.n, 2),
        4 => {
            if (nb.n - nb.nw).abs() < (nb.w - nb.nw).abs() {
                nb.w
            } else {
                nb.n
            }
        }
        5 => clamp_grad(nb.n, nb.w, nb.nw),
        6 => (wp_pred + 3) >> 3,
        7 => nb.ne,
        8 => nb.nw,
        9 => nb.ww,
        10 => idiv(nb.w + nb.nw, 2),
        11 => idiv(nb.n + nb.nw, 2),
        12 => idiv(nb.n + nb.ne, 2),
        13 => idiv(6 * nb.n - 2 * nb.nn + 7 * nb.w + nb.ww + nb.nee + 3 * nb.ne + 8, 16),
        _ => panic!("predictor {p}"),
    }
}

// ---------------------------------------------------------------------------------------------
// inverse transforms

pub fn inverse_rct(chs: &mut [Channel], begin_c: usize, rct_type: u32) {
    let perm = rct_type / 7;
    let ty = rct_type % 7;
    let n = chs[begin_c].data.len();
    for i in 0..n {
        let a = chs[begin_c].data[i] as i64;
        let mut b = chs[begin_c + 1].data[i] as i64;
        let mut c = chs[begin_c + 2].data[i] as i64;
        let (d, e, f);
        if ty == 6 {
            let tmp = a - (c >> 1);
            let ee = c + tmp;
            let ff = tmp - (b >> 1);
            d = ff + b;
            e = ee;
            f = ff;
        } else {
            if ty & 1 == 1 {
                c += a;
            }
            if ty >> 1 == 1 {
                b += a;
            }
            if ty >> 1 == 2 {
                b += (a + c) >> 1;
            }
            d = a;
            e = b;
            f = c;
        }
        let mut v = [0i64; 3];
        v[(perm % 3) as usize] = d;
        v[((perm + 1 + perm / 3) % 3) as usize] = e;
        v[((perm + 2 - perm / 3) % 3) as usize] = f;
        for k in 0..3 {
            chs[begin_c + k].data[i] = v[k] as i32;
        }
    }
}

#[rustfmt::skip]
pub const DELTA_PALETTE: [[i32; 3]; 72] = [
    [0, 0, 0], [4, 4, 4], [11, 0, 0], [0, 0, -13], [0, -12, 0], [-10, -10, -10],
    [-18, -18, -18], [-27, -27, -27], [-18, -18, 0], [0, 0, -32], [-32, 0, 0], [-37, -37, -37],
    [0, -32, -32], [24, 24, 45], [50, 50, 50], [-45, -24, -24], [-24, -45, -45], [0, -24, -24],
    [-34, -34, 0], [-24, 0, -24], [-45, -45, -24], [64, 64, 64], [-32, 0, -32], [0, -32, 0],
    [-32, 0, 32], [-24, -45, -24], [45, 24, 45], [24, -24, -45], [-45, -24, 24], [80, 80, 80],
    [64, 0, 0], [0, 0, -64], [0, -64, -64], [-24, -24, 45], [96, 96, 96], [64, 64, 0],
    [45, -24, -24], [34, -34, 0], [112, 112, 112], [24, -45, -45], [45, 45, -24], [0, -32, 32],
    [24, -24, 45], [0, 96, 96], [45, -24, 24], [24, -45, -24], [-24, -45, 24], [0, -64, 0],
    [96, 0, 0], [128, 128, 128], [64, 0, 64], [144, 144, 144], [96, 96, 0], [-36, -36, 36],
    [45, -24, -45], [45, -45, -24], [0, 0, -96], [0, 128, 128], [0, 96, 0], [45, 24, -45],
    [-128, 0, 0], [24, -45, 24], [-45, 24, -45], [64, 0, -64], [64, -64, -64], [96, 0, 96],
    [45, -45, 24], [24, 45, -45], [64, 64, -64], [128, 128, 0], [0, 0, -128], [-24, 45, -45],
];

/// Inverse palette. `chs[0]` is the palette meta channel (nb_colours x num_c), `chs[begin_c + 1]`
/// the index channel (indices shifted by one because of the meta channel). Replaces them by the
/// `num_c` reconstructed channels at begin_c.
pub fn inverse_palette(
    chs: &mut Vec<Channel>,
    begin_c: usize,
    num_c: usize,
    nb_colours: i64,
    nb_deltas: i64,
    d_pred: u32,
    bit_depth: u32,
    wp: &WpHeader,
) {
    let pal = chs.remove(0);
    let idx = chs[begin_c].clone();
    let (w, h) = (idx.w, idx.h);
    let mut out: Vec<Channel> = (0..num_c).map(|_| Channel::new(w, h, idx.hshift, idx.vshift)).collect();
    let maxv = (1i64 << bit_depth) - 1;
    for y in 0..h {
        for x in 0..w {
            let index = idx.at(x, y) as i64;
            for c in 0..num_c {
                let v: i64 = if index >= 0 && index < nb_colours {
                    pal.at(index as usize, c) as i64
                } else if index >= nb_colours {
                    let mut i = index - nb_colours;
                    if i < 64 {
                        ((i >> (2 * c)) % 4) * maxv / 4 + (1i64 << bit_depth.saturating_sub(3))
                    } else {
                        i -= 64;
                        for _ in 0..c {
                            i /= 5;
                        }
                        (i % 5) * maxv / 4
                    }
                } else if c < 3 {
                    let i = ((-(index + 1)) % 143) as usize;
                    let mut t = DELTA_PALETTE[(i + 1) >> 1][c] as i64;
                    if i & 1 == 0 {
                        t = -t;
                    }
                    if bit_depth > 8 {
                        t <<= bit_depth.min(24) - 8;
                    }
                    t
                } else {
                    0
                };
                out[c].set(x, y, v as i32);
            }
        }
    }
    // delta entries: add the prediction from the already reconstructed neighbourhood
    // (negative indices are always below nb_deltas, so they are delta entries even when
    // nb_deltas == 0)
    let any_delta = idx.data.iter().any(|&i| (i as i64) < nb_deltas);
    if any_delta {
        for c in 0..num_c {
            let mut wps = if d_pred == 6 { Some(WpState::new(wp, w, h)) } else { None };
            for y in 0..h {
                for x in 0..w {
                    let index = idx.at(x, y) as i64;
                    let nb = neighbourhood(&out[c], x, y);
                    if let Some(s) = wps.as_mut() {
                        s.predict(&nb, x, y);
                    }
                    if std::env::var("JXLGEN_DEBUG_PAL").is_ok() && y == 0 && x < 12 {
                        eprintln!("c={c} x={x} index={index} raw={} nb={:?} wp_pred={:?}", out[c].at(x, y), nb, wps.as_ref().map(|s| (s.last_pred, s.last_sub)));
                    }
                    if index < nb_deltas {
                        let p = predict(d_pred, &nb, wps.as_ref().map_or(0, |s| s.last_pred));
                        let v = out[c].at(x, y) as i64 + p;
                        out[c].set(x, y, v as i32);
                    }
                    if let Some(s) = wps.as_mut() {
                        let v = out[c].at(x, y) as i64;
                        s.record(x, y, v);
                    }
                }
            }
        }
    }
    chs.remove(begin_c);
    for (k, ch) in out.into_iter().enumerate() {
        chs.insert(begin_c + k, ch);
    }
}

pub fn smooth_tendency(b: i64, a: i64, n: i64) -> i64 {
    let mut diff = 0;
    if b >= a && a >= n {
        diff = idiv(4 * b - 3 * n - a + 6, 12);
        if diff - (diff & 1) > 2 * (b - a) {
            diff = 2 * (b - a) + 1;
        }
        if diff + (diff & 1) > 2 * (a - n) {
            diff = 2 * (a - n);
        }
    } else if b <= a && a <= n {
        diff = idiv(4 * b - 3 * n - a - 6, 12);
        if diff + (diff & 1) < 2 * (b - a) {
            diff = 2 * (b - a) - 1;
        }
        if diff - (diff & 1) < 2 * (a - n) {
            diff = 2 * (a - n);
        }
    }
    diff
}

/// One inverse squeeze step: `avg` and `res` are merged into a channel of the combined size.
/// Returns the output; `range` (min,max) of all intermediate values is folded into `track`.
pub fn inverse_squeeze_step(avg: &Channel, res: &Channel, horizontal: bool, track: &mut (i64, i64)) -> Channel {
    let mut t = |v: i64| -> i64 {
        track.0 = track.0.min(v);
        track.1 = track.1.max(v);
        v
    };
    if horizontal {
        let ow = avg.w + res.w;
        let mut out = Channel::new(ow, avg.h, avg.hshift - (avg.hshift > 0) as i32, avg.vshift);
        if avg.hshift < 0 {
            out.hshift = avg.hshift;
        }
        for y in 0..avg.h {
            for x in 0..res.w {
                let a = avg.at(x, y) as i64;
                let r = res.at(x, y) as i64;
                let next = if x + 1 < avg.w { avg.at(x + 1, y) as i64 } else { a };
                let left = if x > 0 { out.at(2 * x - 1, y) as i64 } else { a };
                let tend = t(smooth_tendency(left, a, next));
                let diff = t(r + tend);
                let first = t(a + idiv(diff, 2));
                let second = t(first - diff);
                out.set(2 * x, y, first as i32);
                out.set(2 * x + 1, y, second as i32);
            }
            if avg.w > res.w {
                out.set(2 * res.w, y, avg.at(res.w, y));
            }
        }
        out
    } else {
        let oh = avg.h + res.h;
        let mut out = Channel::new(avg.w, oh, avg.hshift, avg.vshift - (avg.vshift > 0) as i32);
        if avg.vshift < 0 {
            out.vshift = avg.vshift;
        }
        for y in 0..res.h {
            for x in 0..avg.w {
                let a = avg.at(x, y) as i64;
                let r = res.at(x, y) as i64;
                let next = if y + 1 < avg.h { avg.at(x, y + 1) as i64 } else { a };
                let top = if y > 0 { out.at(x, 2 * y - 1) as i64 } else { a };
                let tend = t(smooth_tendency(top, a, next));
                let diff = t(r + tend);
                let first = t(a + idiv(diff, 2));
                let second = t(first - diff);
                out.set(x, 2 * y, first as i32);
                out.set(x, 2 * y + 1, second as i32);
            }
        }
        if avg.h > res.h {
            for x in 0..avg.w {
                out.set(x, 2 * res.h, avg.at(x, res.h));
            }
        }
        out
    }
}

pub fn inverse_squeeze(chs: &mut Vec<Channel>, params: &[SqueezeParam], track: &mut (i64, i64)) {
    for sp in params.iter().rev() {
        let b = sp.begin_c as usize;
        let n = sp.num_c as usize;
        let e = b + n;
        let residuals: Vec<Channel> = if sp.in_place {
            chs.drain(e..e + n).collect()
        } else {
            let l = chs.len();
            chs.drain(l - n..).collect()
        };
        for (k, r) in residuals.iter().enumerate() {
            let out = inverse_squeeze_step(&chs[b + k], r, sp.horizontal, track);
            chs[b + k] = out;
        }
    }
}

/// Apply the inverse of all transforms (last first). `infos_before[i]` = (channel infos,
/// nb_meta) before transform i was applied (needed for default squeeze parameters).
pub fn inverse_transforms(
    chs: &mut Vec<Channel>,
    transforms: &[Transform],
    infos_before: &[(Vec<ChanInfo>, usize)],
    bit_depth: u32,
    wp: &WpHeader,
    track: &mut (i64, i64),
) {
    for (i, tr) in transforms.iter().enumerate().rev() {
        match tr {
            Transform::Rct { begin_c, rct_type } => inverse_rct(chs, *begin_c as usize, *rct_type),
            Transform::Palette { begin_c, num_c, nb_colours, nb_deltas, d_pred } => inverse_palette(
                chs,
                *begin_c as usize,
                *num_c as usize,
                *nb_colours as i64,
                *nb_deltas as i64,
                *d_pred,
                bit_depth,
                wp,
            ),
            Transform::Squeeze(p) => {
                let params = if p.is_empty() {
                    default_squeeze_params(&infos_before[i].0, infos_before[i].1)
                } else {
                    p.clone()
                };
                inverse_squeeze(chs, &params, track);
            }
        }
        for c in chs.iter() {
            for &v in &c.data {
                track.0 = track.0.min(v as i64);
                track.1 = track.1.max(v as i64);
            }
        }
    }
}
