//! VarDCT frame writer for the JPEG-transcode subset (DCT8 only, RAW quantisation tables, one
//! pass), written from the format definition:
//!
//! * frame = LfGlobal, LfGroup*, HfGlobal, PassGroup*;
//! * LfGlobal = LfChannelDequantization, Quantizer, HfBlockContext, LfChannelCorrelation,
//!   GlobalModular (no channels here, optionally a global MA tree used by the sub-bitstreams);
//! * LfGroup = LfCoeff (extra_precision, Modular image of the quantised DC in channel order
//!   Y, X, B), ModularLfGroup (empty), HfMetadata (nb_blocks, Modular image with x_from_y,
//!   b_from_y, block_info (2 rows: transform type, hf_mul - 1), sharpness);
//! * HfGlobal = dequant matrices (17 parameter sets, first one RAW = denominator + Modular 8x8x3),
//!   num_hf_presets, per pass: used_orders + permutations, the HF entropy code over
//!   495 * presets * block-context-clusters contexts;
//! * PassGroup = preset selector, HF coefficients.
//!
//! Transcode conventions (reference encoder): channel order X,Y,B = Cb,Y,Cr (R,G,B without colour
//! transform); the 8x8 coefficient block of JPEG XL is the TRANSPOSE of the JPEG block, the same
//! holds for the RAW quantisation table; the RAW denominator is 1/(8*255); DC is carried in the LF
//! image (plus 1024/q for images without YCbCr transform); for 4:4:4 colour images the chroma
//! coefficients are stored minus an integer chroma-from-luma prediction.

use crate::bits::{f32_to_f16_bits, BitWriter, D};
use crate::codestream::{write_codestream_header, write_frame, FrameLayoutInfo};
use crate::container::*;
use crate::entropy::*;
use crate::headers::*;
use crate::jbrd::*;
use crate::jpeg::*;
use crate::modmodel::{Channel, WpHeader};
use crate::modular::*;
use crate::rng::Rng;
use std::sync::Arc;

#[derive(Clone, Debug)]
pub struct TranscodeOpts {
    /// non-zero chroma-from-luma factors (only effective for 4:4:4 colour images)
    pub cfl: bool,
    /// coded coefficient order for DCT8
    pub custom_order: bool,
    pub custom_block_ctx: bool,
    pub global_tree: bool,
    pub permute_toc: bool,
    pub random_selectors: bool,
    pub allow_lz77: bool,
    pub allow_wp: bool,
    pub max_presets: u32,
    pub plain_entropy: bool,
    pub jbrd: JbrdOpts,
}

impl TranscodeOpts {
    pub fn random(rng: &mut Rng) -> Self {
        Self {
            cfl: rng.chance(1, 2),
            custom_order: rng.chance(1, 4),
            custom_block_ctx: rng.chance(1, 3),
            global_tree: rng.chance(1, 2),
            permute_toc: rng.chance(1, 4),
            random_selectors: rng.chance(1, 3),
            allow_lz77: rng.chance(1, 5),
            allow_wp: rng.chance(1, 4),
            max_presets: if rng.chance(1, 3) { 3 } else { 1 },
            plain_entropy: rng.chance(1, 2),
            jbrd: JbrdOpts { brotli: BrotliStored::random(rng), quant_idx_is_tq: false },
        }
    }
    pub fn plain() -> Self {
        Self {
            cfl: false,
            custom_order: false,
            custom_block_ctx: false,
            global_tree: false,
            permute_toc: false,
            random_selectors: false,
            allow_lz77: false,
            allow_wp: false,
            max_presets: 1,
            plain_entropy: true,
            jbrd: JbrdOpts::default(),
        }
    }
}

#[derive(Clone, Debug)]
pub struct Transcoded {
    pub codestream: Vec<u8>,
    /// jbrd box payload
    pub jbrd: Vec<u8>,
    pub jbrd_header: JbrdHeader,
    pub jbrd_data: Vec<u8>,
    /// `Exif` box payload (4-byte TIFF offset + data)
    pub exif_box: Option<Vec<u8>>,
    /// `xml ` box payload
    pub xml_box: Option<Vec<u8>>,
    /// the original file
    pub jpeg: Vec<u8>,
    pub ih: ImageHeader,
    pub fh: FrameHeader,
    pub frame_layout: FrameLayoutInfo,
    pub desc: String,
}

// kCoeffFreqContext / kCoeffNumNonzeroContext of the format (index 0 unused)
const FREQ_CTX: [u32; 64] = [
    0, 0, 1, 2, 3, 4, 5, 6, 7, 8, 9, 10, 11, 12, 13, 14, 15, 15, 16, 16, 17, 17, 18, 18, 19, 19, 20, 20, 21, 21, 22, 22, 23, 23, 23, 23, 24, 24, 24, 24, 25,
    25, 25, 25, 26, 26, 26, 26, 27, 27, 27, 27, 28, 28, 28, 28, 29, 29, 29, 29, 30, 30, 30, 30,
];
const NNZ_CTX: [u32; 64] = [
    0, 0, 31, 62, 62, 93, 93, 93, 93, 123, 123, 123, 123, 152, 152, 152, 152, 152, 152, 152, 152, 180, 180, 180, 180, 180, 180, 180, 180, 180, 180, 180,
    180, 206, 206, 206, 206, 206, 206, 206, 206, 206, 206, 206, 206, 206, 206, 206, 206, 206, 206, 206, 206, 206, 206, 206, 206, 206, 206, 206, 206, 206,
    206, 206,
];
const DEFAULT_BLOCK_CTX: [u8; 39] = [
    0, 1, 2, 2, 3, 3, 4, 5, 6, 6, 6, 6, 6, 7, 8, 9, 9, 10, 11, 12, 13, 14, 14, 14, 14, 14, 7, 8, 9, 9, 10, 11, 12, 13, 14, 14, 14, 14, 14,
];

fn ceil_log2(x: u32) -> u32 {
    // smallest n with 2^n >= x (x >= 1)
    let mut n = 0;
    while (1u64 << n) < x as u64 {
        n += 1;
    }
    n
}

/// Geometry of the transcoded frame.
#[derive(Clone, Debug)]
pub struct Geo {
    pub w: u32,
    pub h: u32,
    pub hscale: bool,
    pub vscale: bool,
    /// per JXL channel (X, Y, B): subsampling shifts
    pub hs: [u32; 3],
    pub vs: [u32; 3],
    /// JPEG component carried by the JXL channel
    pub comp_of: [Option<usize>; 3],
    /// frame header jpeg_upsampling (X, Y, B)
    pub modes: [u32; 3],
    pub ycbcr: bool,
}

impl Geo {
    pub fn new(spec: &JpegSpec) -> Option<Geo> {
        let n = spec.components.len();
        if n != 1 && n != 3 {
            return None;
        }
        let rgb = spec.is_rgb();
        let comp_of: [Option<usize>; 3] = if n == 1 {
            [None, Some(0), None]
        } else if rgb {
            [Some(0), Some(1), Some(2)]
        } else {
            [Some(1), Some(0), Some(2)]
        };
        let mode_of = |h: u8, v: u8| -> Option<u32> {
            match (h, v) {
                (1, 1) => Some(0),
                (2, 2) => Some(1),
                (2, 1) => Some(2),
                (1, 2) => Some(3),
                _ => None,
            }
        };
        let mut modes = [0u32; 3];
        for c in 0..3 {
            if let Some(k) = comp_of[c] {
                modes[c] = mode_of(spec.components[k].h, spec.components[k].v)?;
            }
        }
        if rgb && modes != [0, 0, 0] {
            return None;
        }
        let hscale = modes.iter().any(|&m| m == 1 || m == 2);
        let vscale = modes.iter().any(|&m| m == 1 || m == 3);
        let mut hs = [0u32; 3];
        let mut vs = [0u32; 3];
        for c in 0..3 {
            let (fh, fv) = match modes[c] {
                0 => (1, 1),
                1 => (2, 2),
                2 => (2, 1),
                _ => (1, 2),
            };
            hs[c] = (hscale && fh == 1) as u32;
            vs[c] = (vscale && fv == 1) as u32;
        }
        Some(Geo { w: spec.width, h: spec.height, hscale, vscale, hs, vs, comp_of, modes, ycbcr: !rgb })
    }
    /// luma-grid block dimensions of a region of `pw` x `ph` pixels (padded for subsampling)
    pub fn blocks(&self, pw: u32, ph: u32) -> (usize, usize) {
        let mut bw = pw.div_ceil(8) as usize;
        let mut bh = ph.div_ceil(8) as usize;
        if self.hscale {
            bw = bw.div_ceil(2) * 2;
        }
        if self.vscale {
            bh = bh.div_ceil(2) * 2;
        }
        (bw, bh)
    }
    pub fn chan_blocks(&self, c: usize, bw: usize, bh: usize) -> (usize, usize) {
        (bw >> self.hs[c], bh >> self.vs[c])
    }
    pub fn is_subsampled(&self) -> bool {
        self.modes != [0, 0, 0]
    }
}

/// One Modular sub-bitstream with given channel data.
struct Sub {
    stream_index: u32,
    chans: Vec<(usize, usize, Vec<i32>)>,
    /// bits written before the Modular sub-bitstream inside its section
    use_global: bool,
    wp: WpHeader,
    tree: Option<MaTree>,
    data: Option<StreamData>,
}

fn run_tree(rng: &mut Rng, tree: &MaTree, wp: &WpHeader, stream_index: u32, chans: &[(usize, usize, Vec<i32>)]) -> Option<StreamData> {
    let mut cs: Vec<Channel> = chans.iter().map(|&(w, h, _)| Channel::new(w, h, 0, 0)).collect();
    let gens: Vec<Gen> = chans.iter().map(|(w, _, d)| Gen::Values(Arc::new(d.clone()), (*w).max(1))).collect();
    let origin = vec![(0usize, 0usize); chans.len()];
    let sd = encode_channels(rng, tree, wp, stream_index, &mut cs, &gens, &origin, Range { lo: -(1 << 30), hi: 1 << 30 })?;
    for (c, (_, _, d)) in cs.iter().zip(chans) {
        if c.data != *d {
            return None;
        }
    }
    Some(sd)
}

fn tree_env(stream_indices: Vec<u32>, nch: usize, mw: usize, mh: usize, amp: i64, wp: bool) -> TreeEnv {
    TreeEnv { num_channels: nch as u32, stream_indices, max_w: mw as u32, max_h: mh as u32, amp, allow_mul: false, allow_wp: wp, max_prev: 2 }
}

fn items_for(rng: &mut Rng, sd: &StreamData, lz: &Option<Lz77Params>, use_prefix: bool) -> Vec<Item> {
    match lz {
        Some(lz) => {
            let pct = rng.u32range(5, 60);
            plan_lz77(rng, &sd.reads, lz, sd.dist_multiplier, pct, if use_prefix { 1 << 15 } else { 256 })
        }
        None => lits(&sd.reads),
    }
}

/// Entropy code for some streams (with optional LZ77); returns code and per-stream items.
fn code_for(rng: &mut Rng, num_ctx: u32, streams: &[&StreamData], o: &TranscodeOpts) -> (EntropyCode, Vec<Vec<Item>>) {
    let use_prefix = rng.bool();
    let maxv = streams.iter().flat_map(|s| s.reads.iter().map(|r| r.value)).max().unwrap_or(0);
    if o.allow_lz77 && rng.chance(1, 2) {
        for _ in 0..3 {
            let lz = Some(random_lz77_params(rng, use_prefix, maxv));
            let per: Vec<Vec<Item>> = streams.iter().map(|s| items_for(rng, s, &lz, use_prefix)).collect();
            let all: Vec<Item> = per.iter().flatten().copied().collect();
            let bo = BuildOpts { use_prefix: Some(use_prefix), plain: o.plain_entropy, lz77: lz, ..Default::default() };
            if let Some(c) = EntropyCode::try_build(rng, num_ctx, &all, &bo) {
                return (c, per);
            }
        }
    }
    let per: Vec<Vec<Item>> = streams.iter().map(|s| lits(&s.reads)).collect();
    let all: Vec<Item> = per.iter().flatten().copied().collect();
    let bo = BuildOpts { use_prefix: Some(use_prefix), plain: o.plain_entropy, ..Default::default() };
    match EntropyCode::try_build(rng, num_ctx, &all, &bo) {
        Some(c) => (c, per),
        None => {
            let bo = BuildOpts { use_prefix: Some(true), plain: o.plain_entropy, ..Default::default() };
            (EntropyCode::build(rng, num_ctx, &all, &bo), per)
        }
    }
}

fn write_ma_tree(bw: &mut BitWriter, rng: &mut Rng, tree: &MaTree, o: &TranscodeOpts) {
    let reads = tree.reads();
    let items = lits(&reads);
    let bo = BuildOpts { plain: o.plain_entropy, ..Default::default() };
    let code = match EntropyCode::try_build(rng, 6, &items, &bo) {
        Some(c) => c,
        None => EntropyCode::build(rng, 6, &items, &BuildOpts { use_prefix: Some(true), plain: o.plain_entropy, ..Default::default() }),
    };
    code.write_header(bw, rng);
    code.write_items(bw, &items);
}

/// chroma-from-luma prediction in the integer arithmetic of the reconstruction
fn cfl_pred(y: i64, qy: i64, qc: i64, factor: i64) -> Option<i64> {
    let ratio = (1 << 11) * qy / qc;
    // truncating division like the reference (C++ / Rust integer division)
    let scale = factor * (1 << 11) / 84;
    let a = ratio * scale + 1024;
    if a.abs() >= i32::MAX as i64 || ratio >= i32::MAX as i64 {
        return None;
    }
    let q_scale = a >> 11;
    let b = y * q_scale + 1024;
    if b.abs() >= i32::MAX as i64 {
        return None;
    }
    Some(b >> 11)
}

pub fn jpeg_to_jxl(spec: &JpegSpec, rng: &mut Rng, o: &TranscodeOpts) -> Option<Transcoded> {
    let geo = Geo::new(spec)?;
    let written = write_jpeg_ex(spec).ok()?;
    let (jh, jdata) = jbrd_from_spec(spec, &written.padding_bits, &o.jbrd);
    if !jh.representable() {
        return None;
    }
    let zz = zigzag();
    let mut zzinv = [[0usize; 8]; 8]; // [row][col] -> k
    for (k, &(c, r)) in zz.iter().enumerate() {
        zzinv[r][c] = k;
    }
    // JPEG XL natural order index j of DCT8 (the zig-zag over (x, y)) holds the JPEG coefficient at
    // the transposed position
    let j2z: Vec<usize> = (0..64).map(|j| zzinv[zz[j].0][zz[j].1]).collect();
    let n = spec.components.len();
    let grey = n == 1;
    let mut desc = String::new();

    // ---- headers
    let icc = spec.icc();
    let mut md = ImageMetadata::plain(BitDepth::Int { bits: 8 }, grey && rng.chance(2, 3), vec![]);
    if icc.is_some() {
        // the declared colour space follows the profile's data colour space field
        let is_gray_profile = icc.as_ref().is_some_and(|p| p.len() >= 20 && &p[16..20] == b"GRAY");
        md.colour_encoding = ColourEncoding { all_default: false, want_icc: true, colour_space: if is_gray_profile { 1 } else { 0 }, ..Default::default() };
    }
    let size = if o.random_selectors { SizeHeader::with_random_repr(spec.width, spec.height, rng) } else { SizeHeader::new(spec.width, spec.height) };
    let ih = ImageHeader { size, metadata: md };
    let mut fh = FrameHeader::modular(&ih);
    fh.modular = false;
    fh.flags = FLAG_SKIP_ADAPTIVE_LF_SMOOTHING;
    fh.do_ycbcr = geo.ycbcr;
    fh.jpeg_upsampling = if geo.ycbcr { geo.modes } else { [0; 3] };
    fh.group_size_shift = 1;
    let groups_x = spec.width.div_ceil(256) as usize;
    let groups_y = spec.height.div_ceil(256) as usize;
    let lfg_x = spec.width.div_ceil(2048) as usize;
    let lfg_y = spec.height.div_ceil(2048) as usize;
    let num_groups = groups_x * groups_y;
    let num_lf = lfg_x * lfg_y;

    // quant values per JXL channel in zig-zag order
    let q_of = |c: usize| -> [u16; 64] {
        let k = geo.comp_of[c].unwrap_or(0);
        let tq = spec.components[k].tq;
        spec.quant.iter().find(|q| q.id == tq).map(|q| q.values).unwrap_or([1; 64])
    };
    let qz: [[u16; 64]; 3] = [q_of(0), q_of(1), q_of(2)];
    let dc_off: [i32; 3] = if geo.ycbcr { [0; 3] } else { [1024 / qz[0][0] as i32, 1024 / qz[1][0] as i32, 1024 / qz[2][0] as i32] };

    // ---- chroma from luma factors per 64x64 tile
    let tiles_x = (spec.width as usize).div_ceil(64);
    let tiles_y = (spec.height as usize).div_ceil(64);
    let use_cfl = o.cfl && !grey && !geo.is_subsampled();
    let mut xfy = vec![0i32; tiles_x * tiles_y];
    let mut bfy = vec![0i32; tiles_x * tiles_y];
    if use_cfl {
        for t in 0..tiles_x * tiles_y {
            let pick = |rng: &mut Rng| -> i32 {
                match rng.below(8) {
                    0 => 0,
                    1 => *rng.pick(&[-128, 127, 84, -84, 1, -1]),
                    _ => rng.range(-40, 40) as i32,
                }
            };
            xfy[t] = pick(rng);
            bfy[t] = pick(rng);
        }
        desc.push_str("cfl ");
    }
    // stored coefficient of JXL channel c, global channel block (bx, by), zig-zag index k
    // (after chroma-from-luma subtraction); None = representable only with factor 0
    let luma = geo.comp_of[1].map(|k| &spec.components[k]);
    let stored_block = |c: usize, bx: usize, by: usize, xfy: &[i32], bfy: &[i32]| -> Option<[i32; 64]> {
        let mut out = [0i32; 64];
        let Some(k) = geo.comp_of[c] else { return Some(out) };
        let comp = &spec.components[k];
        if bx >= comp.bw || by >= comp.bh {
            return Some(out);
        }
        let b = comp.block(bx, by);
        for i in 0..64 {
            out[i] = b[i] as i32;
        }
        if use_cfl && c != 1 {
            let t = (by / 8) * tiles_x + bx / 8;
            let f = if c == 0 { xfy[t] } else { bfy[t] } as i64;
            if f != 0 {
                let yb = luma?.block(bx, by);
                // the reconstruction also evaluates the (unused) DC position in 32-bit arithmetic
                cfl_pred(0, qz[1][0] as i64, qz[c][0] as i64, f)?;
                for i in 1..64 {
                    let p = cfl_pred(yb[i] as i64, qz[1][i] as i64, qz[c][i] as i64, f)?;
                    out[i] -= p as i32;
                }
            }
        }
        Some(out)
    };
    if use_cfl {
        // tiles whose prediction would leave 32-bit arithmetic get factor 0
        let (bw, bh) = geo.blocks(spec.width, spec.height);
        for by in 0..bh {
            for bx in 0..bw {
                let t = (by / 8) * tiles_x + bx / 8;
                if stored_block(0, bx, by, &xfy, &bfy).is_none() {
                    xfy[t] = 0;
                }
                if stored_block(2, bx, by, &xfy, &bfy).is_none() {
                    bfy[t] = 0;
                }
            }
        }
    }

    // ---- HfBlockContext
    let mut lf_thr: [Vec<i32>; 3] = [vec![], vec![], vec![]];
    let mut qf_thr: Vec<u32> = vec![];
    let (block_ctx_map, num_clusters): (Vec<u8>, u32) = if o.custom_block_ctx {
        for t in lf_thr.iter_mut() {
            let k = *rng.pick(&[0usize, 0, 1, 1, 2]);
            let mut v: Vec<i32> = (0..k).map(|_| rng.range(-300, 300) as i32).collect();
            v.sort();
            *t = v;
        }
        let k = *rng.pick(&[0usize, 0, 1, 2]);
        let mut v: Vec<u32> = (0..k).map(|_| rng.range(1, 6) as u32).collect();
        v.sort();
        qf_thr = v;
        let bsize = (lf_thr[0].len() + 1) * (lf_thr[1].len() + 1) * (lf_thr[2].len() + 1) * (qf_thr.len() + 1);
        let maxc = *rng.pick(&[1usize, 2, 4, 8]);
        let m = random_cluster_map(rng, bsize * 39, maxc);
        let nc = *m.iter().max().unwrap_or(&0) as u32 + 1;
        desc.push_str(&format!("bctx{}x{} ", bsize, nc));
        (m, nc)
    } else {
        (DEFAULT_BLOCK_CTX.to_vec(), 15)
    };
    let lf_mul = (lf_thr[0].len() + 1) * (lf_thr[1].len() + 1) * (lf_thr[2].len() + 1);
    let hf_mul_n = qf_thr.len() + 1;

    // ---- LF groups: LF coefficient images and HF metadata
    let mut subs: Vec<Sub> = Vec::new();
    // per LF group: (nb_blocks, bw, bh), hf_mul grid
    let mut lf_info: Vec<(usize, usize, usize)> = Vec::new();
    // global luma-grid hf_mul (for contexts)
    let (gbw, gbh) = {
        // global luma grid = union of LF group grids
        let mut w = 0;
        let mut h = 0;
        for lx in 0..lfg_x {
            let pw = (spec.width - lx as u32 * 2048).min(2048);
            w += geo.blocks(pw, 8).0;
        }
        for ly in 0..lfg_y {
            let ph = (spec.height - ly as u32 * 2048).min(2048);
            h += geo.blocks(8, ph).1;
        }
        (w, h)
    };
    let max_mul = if qf_thr.is_empty() { 3 } else { 8 };
    let const_mul = rng.chance(1, 2);
    let hfmul: Vec<i32> = (0..gbw * gbh).map(|_| if const_mul { 1 } else { rng.range(1, max_mul) as i32 }).collect();
    // LF value of channel c at channel block (bx, by)
    let lf_val = |c: usize, bx: usize, by: usize| -> i32 {
        match geo.comp_of[c] {
            Some(k) => {
                let comp = &spec.components[k];
                if bx < comp.bw && by < comp.bh {
                    comp.block(bx, by)[0] as i32 + dc_off[c]
                } else {
                    dc_off[c]
                }
            }
            None => 0,
        }
    };
    for ly in 0..lfg_y {
        for lx in 0..lfg_x {
            let l = ly * lfg_x + lx;
            let pw = (spec.width - lx as u32 * 2048).min(2048);
            let ph = (spec.height - ly as u32 * 2048).min(2048);
            let (bw, bh) = geo.blocks(pw, ph);
            // LF coefficients: channel order Y, X, B
            let mut chans = Vec::new();
            for &c in &[1usize, 0, 2] {
                let (cw, ch) = geo.chan_blocks(c, bw, bh);
                let (ox, oy) = ((lx * 256) >> geo.hs[c], (ly * 256) >> geo.vs[c]);
                let mut d = Vec::with_capacity(cw * ch);
                for y in 0..ch {
                    for x in 0..cw {
                        d.push(lf_val(c, ox + x, oy + y));
                    }
                }
                chans.push((cw, ch, d));
            }
            subs.push(Sub { stream_index: 1 + l as u32, chans, use_global: false, wp: WpHeader::default(), tree: None, data: None });
            // HF metadata
            let tw = (pw as usize).div_ceil(64);
            let th = (ph as usize).div_ceil(64);
            let mut cx = Vec::with_capacity(tw * th);
            let mut cb = Vec::with_capacity(tw * th);
            for y in 0..th {
                for x in 0..tw {
                    let t = (ly * 32 + y) * tiles_x + lx * 32 + x;
                    cx.push(*xfy.get(t).unwrap_or(&0));
                    cb.push(*bfy.get(t).unwrap_or(&0));
                }
            }
            let nb = bw * bh;
            let mut bi = vec![0i32; nb * 2];
            for y in 0..bh {
                for x in 0..bw {
                    bi[nb + y * bw + x] = hfmul[(ly * 256 + y) * gbw + lx * 256 + x] - 1;
                }
            }
            let sharp: Vec<i32> = if rng.chance(1, 2) { vec![0; nb] } else { (0..nb).map(|_| rng.below(8) as i32).collect() };
            subs.push(Sub {
                stream_index: 1 + 2 * num_lf as u32 + l as u32,
                chans: vec![(tw, th, cx), (tw, th, cb), (nb, 2, bi), (bw, bh, sharp)],
                use_global: false,
                wp: WpHeader::default(),
                tree: None,
                data: None,
            });
            lf_info.push((nb, bw, bh));
        }
    }
    // RAW quantisation tables: 8x8 per channel, transposed relative to the JPEG block
    {
        let mut chans = Vec::new();
        for c in 0..3 {
            let mut d = vec![0i32; 64];
            for k in 0..64 {
                let (col, row) = zz[k];
                d[col * 8 + row] = qz[c][k] as i32;
            }
            chans.push((8usize, 8usize, d));
        }
        subs.push(Sub { stream_index: 1 + 3 * num_lf as u32, chans, use_global: false, wp: WpHeader::default(), tree: None, data: None });
    }
    // ---- trees for the sub-bitstreams
    let all_streams: Vec<u32> = subs.iter().map(|s| s.stream_index).collect();
    let global_tree: Option<MaTree> = if o.global_tree {
        let env = tree_env(all_streams.clone(), 4, 64, 64, 400, o.allow_wp);
        Some(random_tree(rng, &env).0)
    } else {
        None
    };
    let global_wp_dummy = WpHeader::default();
    let _ = global_wp_dummy;
    for s in subs.iter_mut() {
        let wp = if o.allow_wp && rng.chance(1, 2) { random_wp_header(rng) } else { WpHeader::default() };
        s.wp = wp;
        let mut done = false;
        if let Some(g) = &global_tree {
            if rng.chance(2, 3) {
                if let Some(sd) = run_tree(rng, g, &s.wp, s.stream_index, &s.chans) {
                    s.use_global = true;
                    s.data = Some(sd);
                    done = true;
                }
            }
        }
        if !done {
            let mw = s.chans.iter().map(|c| c.0).max().unwrap_or(1);
            let mh = s.chans.iter().map(|c| c.1).max().unwrap_or(1);
            let env = tree_env(vec![s.stream_index], s.chans.len(), mw, mh, 400, o.allow_wp);
            let t = random_tree(rng, &env).0;
            match run_tree(rng, &t, &s.wp, s.stream_index, &s.chans) {
                Some(sd) => {
                    s.tree = Some(t);
                    s.data = Some(sd);
                }
                None => {
                    let t = MaTree::from_spec(&TreeSpec::leaf(0));
                    s.data = Some(run_tree(rng, &t, &s.wp, s.stream_index, &s.chans)?);
                    s.tree = Some(t);
                }
            }
        }
    }
    // global code
    let gl: Vec<&StreamData> = subs.iter().filter(|s| s.use_global).filter_map(|s| s.data.as_ref()).collect();
    let gcode: Option<(EntropyCode, Vec<Vec<Item>>)> = global_tree.as_ref().map(|g| code_for(rng, g.num_leaves, &gl, o));
    let mut gi = 0usize;
    let mut sub_bits: Vec<(u32, BitWriter)> = Vec::new();
    for s in &subs {
        let mut bw = BitWriter::new();
        SubHeader { use_global_tree: s.use_global, wp: s.wp.clone(), transforms: vec![] }.write(&mut bw);
        let sd = s.data.as_ref()?;
        if s.use_global {
            let (code, items) = gcode.as_ref()?;
            code.write_items(&mut bw, &items[gi]);
            gi += 1;
        } else {
            let t = s.tree.as_ref()?;
            write_ma_tree(&mut bw, rng, t, o);
            let (code, items) = code_for(rng, t.num_leaves, &[sd], o);
            code.write_header(&mut bw, rng);
            code.write_items(&mut bw, &items[0]);
        }
        sub_bits.push((s.stream_index, bw));
    }
    let sub_of = |idx: u32| -> Option<&BitWriter> { sub_bits.iter().find(|s| s.0 == idx).map(|s| &s.1) };

    // ---- LfGlobal
    let mut lfg = BitWriter::new();
    if rng.chance(1, 2) {
        lfg.bool(true);
    } else {
        lfg.bool(false);
        for _ in 0..3 {
            let v = *rng.pick(&[1.0f32 / 32.0, 0.25, 0.5, 1.0, 2.0, 0.01, 0.003]);
            lfg.f16_bits(f32_to_f16_bits(v));
        }
    }
    let global_scale: u32 = match rng.below(4) {
        0 => rng.range(1, 2048) as u32,
        1 => rng.range(2049, 4096) as u32,
        2 => rng.range(4097, 8192) as u32,
        _ => rng.range(8193, 73728) as u32,
    };
    lfg.u32([D::B(1, 11), D::B(2049, 11), D::B(4097, 12), D::B(8193, 16)], global_scale);
    let quant_lf: u32 = *rng.pick(&[16u32, 16, 1, 8, 32, 64, 200, 256]);
    lfg.u32([D::C(16), D::B(1, 5), D::B(1, 8), D::B(1, 16)], quant_lf);
    // HfBlockContext
    if !o.custom_block_ctx {
        lfg.bool(true);
    } else {
        lfg.bool(false);
        for t in &lf_thr {
            lfg.write(4, t.len() as u64);
            for &v in t {
                lfg.u32([D::B(0, 4), D::B(16, 8), D::B(272, 16), D::B(65808, 32)], crate::bits::pack_signed(v));
            }
        }
        lfg.write(4, qf_thr.len() as u64);
        for &v in &qf_thr {
            lfg.u32([D::B(0, 2), D::B(4, 3), D::B(12, 5), D::B(44, 8)], v - 1);
        }
        // cluster map of bsize*39 entries, simple form
        let need = ceil_log2(num_clusters);
        let nbits = if need < 3 && rng.bool() { need + 1 } else { need };
        lfg.bool(true);
        lfg.write(2, nbits as u64);
        for &m in &block_ctx_map {
            lfg.write(nbits, m as u64);
        }
    }
    // LfChannelCorrelation: base correlations must be 0 for reconstruction of 4:4:4 files
    lfg.bool(false);
    lfg.u32([D::C(84), D::C(256), D::B(2, 8), D::B(258, 16)], 84);
    lfg.f16_bits(0);
    lfg.f16_bits(0);
    lfg.write(8, 128);
    lfg.write(8, 128);
    // GlobalModular: optional global tree, no channels
    match (&global_tree, &gcode) {
        (Some(g), Some((code, _))) => {
            lfg.bool(true);
            write_ma_tree(&mut lfg, rng, g, o);
            code.write_header(&mut lfg, rng);
            desc.push_str("gtree ");
        }
        _ => lfg.bool(false),
    }

    // ---- LfGroup sections
    let mut sections: Vec<BitWriter> = vec![lfg];
    for l in 0..num_lf {
        let mut bw = BitWriter::new();
        bw.write(2, 0); // extra_precision
        bw.append_bits(sub_of(1 + l as u32)?);
        let (nb, bwid, bhei) = lf_info[l];
        bw.write(ceil_log2((bwid * bhei) as u32), (nb - 1) as u64);
        bw.append_bits(sub_of(1 + 2 * num_lf as u32 + l as u32)?);
        sections.push(bw);
    }

    // ---- HF coefficient tokens per group
    let num_presets: u32 = if num_groups > 1 { rng.range(1, (o.max_presets.max(1) as i64).min(1 << ceil_log2(num_groups as u32))) as u32 } else { 1 };
    let perms: Option<[Vec<usize>; 3]> = if o.custom_order {
        let mk = |rng: &mut Rng| -> Vec<usize> {
            let mut p: Vec<usize> = (0..64).collect();
            match rng.below(3) {
                0 => rng.shuffle(&mut p[1..]),
                1 => p[1..].reverse(),
                _ => {
                    let a = rng.urange(1, 63);
                    let b = rng.urange(1, 63);
                    p.swap(a, b);
                }
            }
            p
        };
        desc.push_str("order ");
        Some([mk(rng), mk(rng), mk(rng)])
    } else {
        None
    };
    let ctx_per_preset = 495 * num_clusters;
    let mut group_reads: Vec<StreamData> = Vec::new();
    let mut group_preset: Vec<u32> = Vec::new();
    for gy in 0..groups_y {
        for gx in 0..groups_x {
            let hfp = rng.below(num_presets as u64) as u32;
            group_preset.push(hfp);
            let base = hfp * ctx_per_preset;
            // luma grid of this group
            let (lx, ly) = (gx / 8, gy / 8);
            let (_, lbw, lbh) = lf_info[ly * lfg_x + lx];
            let left = (gx % 8) * 32;
            let top = (gy % 8) * 32;
            let gw = (lbw - left).min(32);
            let gh = (lbh - top).min(32);
            let mut reads: Vec<Read> = Vec::new();
            let mut nz_rows: [Vec<u32>; 3] = [vec![0; gw >> geo.hs[0]], vec![0; gw >> geo.hs[1]], vec![0; gw >> geo.hs[2]]];
            for y in 0..gh {
                for x in 0..gw {
                    let (gbx, gby) = (gx * 32 + x, gy * 32 + y); // global luma-grid block
                    let qf = hfmul[gby * gbw + gbx];
                    let hf_idx = qf_thr.iter().filter(|&&t| qf > t as i32).count();
                    // LF index from the quantised LF of the three channels (X, B, Y order)
                    let mut lf_idx = 0usize;
                    for &c in &[0usize, 2, 1] {
                        lf_idx *= lf_thr[c].len() + 1;
                        let q = lf_val(c, gbx >> geo.hs[c], gby >> geo.vs[c]);
                        lf_idx += lf_thr[c].iter().filter(|&&t| q > t).count();
                    }
                    for (ci, &c) in [1usize, 0, 2].iter().enumerate() {
                        let (hs, vs) = (geo.hs[c], geo.vs[c]);
                        let (sx, sy) = (x >> hs, y >> vs);
                        if (sx << hs) != x || (sy << vs) != y {
                            continue;
                        }
                        let ch_idx = ci * 13; // order id 0 (DCT8)
                        let bctx = block_ctx_map[(ch_idx * hf_mul_n + hf_idx) * lf_mul + lf_idx] as u32;
                        let blk = stored_block(c, gbx >> hs, gby >> vs, &xfy, &bfy)?;
                        // coefficients in coded order
                        let mut seq = [0i32; 64];
                        for i in 1..64 {
                            let j = match &perms {
                                Some(p) => p[c][i],
                                None => i,
                            };
                            seq[i] = blk[j2z[j]];
                        }
                        let nnz = seq[1..].iter().filter(|&&v| v != 0).count() as u32;
                        let predicted = if sy == 0 {
                            if sx == 0 {
                                32
                            } else {
                                nz_rows[c][sx - 1]
                            }
                        } else if sx == 0 {
                            nz_rows[c][sx]
                        } else {
                            (nz_rows[c][sx] + nz_rows[c][sx - 1] + 1) >> 1
                        };
                        let pidx = if predicted >= 8 { 4 + predicted / 2 } else { predicted };
                        reads.push(Read { ctx: base + bctx + pidx * num_clusters, value: nnz });
                        nz_rows[c][sx] = nnz;
                        if nnz == 0 {
                            continue;
                        }
                        let cbase = base + 37 * num_clusters + bctx * 458;
                        let mut left_nz = nnz;
                        let mut prev = (nnz <= 4) as u32;
                        for i in 1..64 {
                            let ctx = (NNZ_CTX[left_nz as usize] + FREQ_CTX[i]) * 2 + prev;
                            let v = seq[i];
                            reads.push(Read { ctx: cbase + ctx, value: crate::bits::pack_signed(v) });
                            prev = (v != 0) as u32;
                            if v != 0 {
                                left_nz -= 1;
                                if left_nz == 0 {
                                    break;
                                }
                            }
                        }
                    }
                }
            }
            group_reads.push(StreamData { stream_index: 0, reads, dist_multiplier: 0 });
        }
    }
    let gr: Vec<&StreamData> = group_reads.iter().collect();
    let (hf_code, hf_items) = code_for(rng, 495 * num_presets * num_clusters, &gr, o);

    // ---- HfGlobal
    let mut hfg = BitWriter::new();
    hfg.bool(false); // dequant matrices not all default
    hfg.write(3, 7); // DCT8: RAW
    hfg.f16_bits(f32_to_f16_bits(1.0 / 2040.0));
    hfg.append_bits(sub_of(1 + 3 * num_lf as u32)?);
    for _ in 1..17 {
        hfg.write(3, 0);
    }
    hfg.write(ceil_log2(num_groups as u32), (num_presets - 1) as u64);
    // coefficient orders
    match &perms {
        None => {
            // used_orders = 0 (selector 2) or the explicit 13-bit form of 0
            if rng.chance(1, 4) {
                hfg.u32_with_selector([D::C(0x5f), D::C(0x13), D::C(0), D::B(0, 13)], 3, 0);
            } else {
                hfg.u32_with_selector([D::C(0x5f), D::C(0x13), D::C(0), D::B(0, 13)], 2, 0);
            }
        }
        Some(p) => {
            let used: u32 = *rng.pick(&[0x5fu32, 0x13, 1, 1, 0x1fff]);
            hfg.u32([D::C(0x5f), D::C(0x13), D::C(0), D::B(0, 13)], used);
            const SIZES: [usize; 13] = [64, 64, 256, 1024, 128, 256, 512, 4096, 2048, 16384, 8192, 65536, 32768];
            let mut reads: Vec<Read> = Vec::new();
            for (ord, &size) in SIZES.iter().enumerate() {
                if used & (1 << ord) == 0 {
                    continue;
                }
                for c in 0..3 {
                    if ord == 0 {
                        reads.extend(permutation_reads(&p[c], 1, if rng.chance(1, 5) { 1 } else { 0 }));
                    } else {
                        // identity: end = 0, read on the context of the permutation size (>= 64 => 7)
                        let _ = size;
                        reads.push(Read { ctx: 7, value: 0 });
                    }
                }
            }
            let items = lits(&reads);
            let bo = BuildOpts { plain: o.plain_entropy, ..Default::default() };
            let code = match EntropyCode::try_build(rng, 8, &items, &bo) {
                Some(c) => c,
                None => EntropyCode::build(rng, 8, &items, &BuildOpts { use_prefix: Some(true), ..Default::default() }),
            };
            code.write_header(&mut hfg, rng);
            code.write_items(&mut hfg, &items);
        }
    }
    hf_code.write_header(&mut hfg, rng);
    sections.push(hfg);

    // ---- pass groups
    for g in 0..num_groups {
        let mut bw = BitWriter::new();
        bw.write(ceil_log2(num_presets), group_preset[g] as u64);
        hf_code.write_items(&mut bw, &hf_items[g]);
        sections.push(bw);
    }

    // ---- codestream
    let icc_writer = |bw: &mut BitWriter, rng: &mut Rng| {
        if let Some(p) = &icc {
            let style = crate::icc::IccStyle::simplest();
            let _ = crate::icc::write_icc(bw, p, rng, &crate::icc::IccWriteOpts { style, entropy: crate::icc::IccEntropyOpts { plain: true, lz77_pct: 0, ..Default::default() } });
        }
    };
    let mut cs = write_codestream_header(&ih, rng, o.random_selectors, if icc.is_some() { Some(&icc_writer) } else { None });
    let frame_layout = write_frame(&mut cs, rng, &ih, &fh, sections, o.permute_toc, o.random_selectors);
    desc.push_str(&format!("groups={}x{} lf={} presets={} clusters={}", groups_x, groups_y, num_lf, num_presets, num_clusters));
    let jbrd = write_jbrd_parts(&jh, &jdata, &o.jbrd, if o.random_selectors { Some(rng.fork()) } else { None });
    Some(Transcoded {
        codestream: cs,
        jbrd,
        jbrd_header: jh,
        jbrd_data: jdata,
        exif_box: spec.exif().map(|e| {
            let mut v = vec![0u8; 4];
            v.extend(e);
            v
        }),
        xml_box: spec.xmp(),
        jpeg: written.bytes,
        ih,
        fh,
        frame_layout,
        desc,
    })
}

/// Box list (after `ftyp`) of a transcoded file in a random legal order: `jbrd`, the codestream
/// boxes (jxlc or jxlp parts, order preserved), `Exif`, `xml `, optional unrelated boxes.
pub fn transcoded_boxes(t: &Transcoded, jbrd_payload: &[u8], rng: &mut Rng, simple: bool) -> Vec<BoxSpec> {
    let wo = WrapOpts { max_parts: 5, ..Default::default() };
    let cs: Vec<BoxSpec> = if simple { vec![BoxSpec::jxlc(&t.codestream)] } else { random_codestream_boxes(&t.codestream, rng, &wo) };
    let mut aux: Vec<BoxSpec> = vec![BoxSpec::new(T_JBRD, jbrd_payload.to_vec())];
    if let Some(e) = &t.exif_box {
        let mut b = BoxSpec::new(T_EXIF, e.clone());
        if !simple && rng.chance(1, 3) {
            b = b.wrapped(BrotliStored::random(rng));
        }
        aux.push(b);
    }
    if let Some(x) = &t.xml_box {
        let mut b = BoxSpec::new(T_XML, x.clone());
        if !simple && rng.chance(1, 3) {
            b = b.wrapped(BrotliStored::random(rng));
        }
        aux.push(b);
    }
    if !simple && rng.chance(1, 4) {
        aux.push(BoxSpec::new(*b"uuid", random_bytes(rng, 20)));
    }
    if !simple {
        rng.shuffle(&mut aux);
    }
    let mut slots: Vec<usize> = (0..aux.len()).map(|_| if simple { 0 } else { rng.urange(0, cs.len()) }).collect();
    slots.sort();
    let mut boxes = Vec::new();
    let mut ai = aux.into_iter();
    let mut si = 0;
    for (i, c) in cs.into_iter().enumerate() {
        while si < slots.len() && slots[si] == i {
            boxes.extend(ai.next());
            si += 1;
        }
        boxes.push(c);
    }
    boxes.extend(ai);
    boxes
}

pub fn wrap_transcoded(t: &Transcoded, rng: &mut Rng, simple: bool) -> Vec<u8> {
    let mut boxes = vec![BoxSpec::ftyp()];
    if !simple && rng.chance(1, 4) {
        boxes.push(BoxSpec::jxll(10));
    }
    boxes.extend(transcoded_boxes(t, &t.jbrd, rng, simple));
    write_container(&Layout { prologue: Prologue::Container, boxes })
}

/// A valid small VarDCT image (a transcoded random JPEG) in a container, for other checkers.
pub fn random_vardct_jpeg_image(rng: &mut Rng, max_dim: u32) -> Option<(Vec<u8>, JpegSpec)> {
    random_vardct_jpeg_image_with(rng, max_dim, &[], &[])
}

/// Same, with pools of *valid* ICC profiles to embed (with empty pools an embedded profile is a
/// structured random one, which no colour management accepts: fine for hostile corpora only).
pub fn random_vardct_jpeg_image_with(rng: &mut Rng, max_dim: u32, icc_rgb: &[Vec<u8>], icc_gray: &[Vec<u8>]) -> Option<(Vec<u8>, JpegSpec)> {
    for _ in 0..8 {
        let o = JpegGenOpts { max_dim, allow_qorder: false, allow_partial_interleave: false, icc_rgb: icc_rgb.to_vec(), icc_gray: icc_gray.to_vec(), ..Default::default() };
        let spec = random_jpeg(rng, &o);
        let to = TranscodeOpts::random(rng);
        if let Some(t) = jpeg_to_jxl(&spec, rng, &to) {
            return Some((wrap_transcoded(&t, rng, false), spec));
        }
    }
    None
}
