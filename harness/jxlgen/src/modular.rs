//! Modular-mode *encoder*: MA trees, sub-image encoding in "generative" mode (tokens are chosen
//! so that decoded pixels approximate a target; the decoded pixels are the truth), global /
//! LF-group / pass-group partition, ModularHeader + transforms.

use crate::bits::{pack_signed, BitWriter, D};
use crate::entropy::*;
use crate::modmodel::*;
use crate::rng::Rng;

// ---------------------------------------------------------------------------------------------
// MA tree

#[derive(Clone, Debug)]
pub enum TreeNode {
    Decision { prop: u32, value: i32, left: usize, right: usize },
    Leaf { ctx: u32, predictor: u32, offset: i32, mul_log: u32, mul_bits: u32 },
}

#[derive(Clone, Debug)]
pub struct MaTree {
    /// nodes in breadth-first (stream) order, root = 0
    pub nodes: Vec<TreeNode>,
    pub num_leaves: u32,
}

#[derive(Clone, Copy, Debug)]
pub struct Leaf {
    pub ctx: u32,
    pub predictor: u32,
    pub offset: i64,
    pub multiplier: i64,
}

/// Recursive description used while generating, then laid out breadth-first.
#[derive(Clone, Debug)]
pub enum TreeSpec {
    D(u32, i32, Box<TreeSpec>, Box<TreeSpec>),
    L { predictor: u32, offset: i32, mul_log: u32, mul_bits: u32 },
}

impl TreeSpec {
    pub fn leaf(predictor: u32) -> Self {
        TreeSpec::L { predictor, offset: 0, mul_log: 0, mul_bits: 0 }
    }
    pub fn depth(&self) -> usize {
        match self {
            TreeSpec::D(_, _, l, r) => 1 + l.depth().max(r.depth()),
            _ => 0,
        }
    }
    pub fn count(&self) -> usize {
        match self {
            TreeSpec::D(_, _, l, r) => 1 + l.count() + r.count(),
            _ => 1,
        }
    }
}

impl MaTree {
    pub fn from_spec(spec: &TreeSpec) -> Self {
        // breadth-first layout
        let mut nodes: Vec<TreeNode> = Vec::new();
        let mut queue: std::collections::VecDeque<(&TreeSpec, usize)> = std::collections::VecDeque::new();
        nodes.push(TreeNode::Leaf { ctx: 0, predictor: 0, offset: 0, mul_log: 0, mul_bits: 0 });
        queue.push_back((spec, 0));
        let mut ctx = 0u32;
        while let Some((s, idx)) = queue.pop_front() {
            match s {
                TreeSpec::D(p, v, l, r) => {
                    let li = nodes.len();
                    nodes.push(TreeNode::Leaf { ctx: 0, predictor: 0, offset: 0, mul_log: 0, mul_bits: 0 });
                    let ri = nodes.len();
                    nodes.push(TreeNode::Leaf { ctx: 0, predictor: 0, offset: 0, mul_log: 0, mul_bits: 0 });
                    nodes[idx] = TreeNode::Decision { prop: *p, value: *v, left: li, right: ri };
                    queue.push_back((l, li));
                    queue.push_back((r, ri));
                }
                TreeSpec::L { predictor, offset, mul_log, mul_bits } => {
                    nodes[idx] = TreeNode::Leaf { ctx, predictor: *predictor, offset: *offset, mul_log: *mul_log, mul_bits: *mul_bits };
                    ctx += 1;
                }
            }
        }
        Self { nodes, num_leaves: ctx }
    }

    pub fn uses_wp(&self) -> bool {
        self.nodes.iter().any(|n| match n {
            TreeNode::Decision { prop, .. } => *prop == 15,
            TreeNode::Leaf { predictor, .. } => *predictor == 6,
        })
    }

    pub fn max_prop(&self) -> u32 {
        self.nodes
            .iter()
            .map(|n| match n {
                TreeNode::Decision { prop, .. } => *prop,
                _ => 0,
            })
            .max()
            .unwrap_or(0)
    }

    /// Walk the tree: property > value goes left.
    pub fn lookup(&self, props: &dyn Fn(u32) -> i64) -> Leaf {
        let mut i = 0;
        loop {
            match &self.nodes[i] {
                TreeNode::Decision { prop, value, left, right } => {
                    i = if props(*prop) > *value as i64 { *left } else { *right };
                }
                TreeNode::Leaf { ctx, predictor, offset, mul_log, mul_bits } => {
                    return Leaf {
                        ctx: *ctx,
                        predictor: *predictor,
                        offset: *offset as i64,
                        multiplier: ((*mul_bits as i64) + 1) << *mul_log,
                    };
                }
            }
        }
    }

    /// Token stream of the tree (6 contexts).
    pub fn reads(&self) -> Vec<Read> {
        let mut r = Vec::new();
        for n in &self.nodes {
            match n {
                TreeNode::Decision { prop, value, .. } => {
                    r.push(Read { ctx: 1, value: prop + 1 });
                    r.push(Read { ctx: 0, value: pack_signed(*value) });
                }
                TreeNode::Leaf { predictor, offset, mul_log, mul_bits, .. } => {
                    r.push(Read { ctx: 1, value: 0 });
                    r.push(Read { ctx: 2, value: *predictor });
                    r.push(Read { ctx: 3, value: pack_signed(*offset) });
                    r.push(Read { ctx: 4, value: *mul_log });
                    r.push(Read { ctx: 5, value: *mul_bits });
                }
            }
        }
        r
    }
}

/// What the tree generator may rely on.
#[derive(Clone, Debug)]
pub struct TreeEnv {
    pub num_channels: u32,
    pub stream_indices: Vec<u32>,
    pub max_w: u32,
    pub max_h: u32,
    /// typical magnitude of sample values (for split values)
    pub amp: i64,
    /// multiplier > 1 / offsets allowed (generative mode always allows them)
    pub allow_mul: bool,
    pub allow_wp: bool,
    /// how many previous-channel property groups make sense
    pub max_prev: u32,
}

fn random_leaf(rng: &mut Rng, env: &TreeEnv, style: u32) -> TreeSpec {
    let predictor = match style {
        0 => 0,
        1 => 5,
        _ => {
            let p = rng.below(14) as u32;
            if p == 6 && !env.allow_wp {
                5
            } else {
                p
            }
        }
    };
    let (offset, mul_log, mul_bits) = if env.allow_mul && style >= 2 && rng.chance(1, 3) {
        let offset = match rng.below(3) {
            0 => 0,
            1 => rng.range(-3, 3) as i32,
            _ => rng.range(-env.amp.min(1000), env.amp.min(1000)) as i32,
        };
        let (ml, mb) = match rng.below(4) {
            0 => (0, 0),
            1 => (rng.below(4) as u32, 0),
            2 => (0, rng.below(6) as u32),
            _ => (rng.below(3) as u32, rng.below(4) as u32),
        };
        (offset, ml, mb)
    } else {
        (0, 0, 0)
    };
    TreeSpec::L { predictor, offset, mul_log, mul_bits }
}

fn random_split(rng: &mut Rng, env: &TreeEnv, prop: u32) -> i32 {
    let a = env.amp.max(2);
    (match prop {
        0 => rng.range(-1, env.num_channels as i64),
        1 => {
            if !env.stream_indices.is_empty() && rng.chance(3, 4) {
                *rng.pick(&env.stream_indices) as i64 - rng.below(2) as i64
            } else {
                rng.range(-1, 40)
            }
        }
        2 => rng.range(-1, env.max_h as i64),
        3 => rng.range(-1, env.max_w as i64),
        4 | 5 => rng.range(0, a),
        15 => rng.range(-a * 4, a * 4),
        p if p >= 16 && (p - 16) % 4 % 2 == 0 => rng.range(0, a),
        _ => match rng.below(4) {
            0 => rng.range(-2, 2),
            1 => rng.range(-a, a),
            2 => rng.range(-a / 8 - 1, a / 8 + 1),
            _ => *rng.pick(&[0i64, -1, 1, i32::MIN as i64, i32::MAX as i64 - 1, i32::MAX as i64]),
        },
    }) as i32
}

fn random_subtree(rng: &mut Rng, env: &TreeEnv, depth: u32, leaf_style: u32) -> TreeSpec {
    if depth == 0 || rng.chance(1, 4) {
        return random_leaf(rng, env, leaf_style);
    }
    let nprops = 16 + 4 * env.max_prev;
    let prop = match rng.below(6) {
        0 => rng.below(2) as u32,
        1 => 2 + rng.below(2) as u32,
        2 => 9,
        3 if env.allow_wp => 15,
        4 if env.max_prev > 0 => 16 + rng.below(4 * env.max_prev as u64) as u32,
        _ => rng.below(nprops as u64) as u32,
    };
    let prop = if prop == 15 && !env.allow_wp { 9 } else { prop };
    let v = random_split(rng, env, prop);
    TreeSpec::D(
        prop,
        v,
        Box::new(random_subtree(rng, env, depth - 1, leaf_style)),
        Box::new(random_subtree(rng, env, depth - 1, leaf_style)),
    )
}

/// Chain of decisions on one property with `k` ascending thresholds => k+1 ranges.
fn range_table(rng: &mut Rng, env: &TreeEnv, prop: u32, k: usize, same_leaf: Option<TreeSpec>, leaf_style: u32) -> TreeSpec {
    let a = env.amp.max(8);
    let mut th: Vec<i32> = (0..k).map(|_| rng.range(-a, a) as i32).collect();
    th.sort();
    th.dedup();
    // balanced or chain shaped
    fn build(rng: &mut Rng, env: &TreeEnv, prop: u32, th: &[i32], same: &Option<TreeSpec>, ls: u32, chain: bool) -> TreeSpec {
        if th.is_empty() {
            return match same {
                Some(l) => l.clone(),
                None => random_leaf(rng, env, ls),
            };
        }
        let m = if chain { th.len() - 1 } else { th.len() / 2 };
        // property > th[m] => left (upper ranges)
        TreeSpec::D(
            prop,
            th[m],
            Box::new(build(rng, env, prop, &th[m + 1..], same, ls, chain)),
            Box::new(build(rng, env, prop, &th[..m], same, ls, chain)),
        )
    }
    let chain = rng.bool();
    build(rng, env, prop, &th, &same_leaf, leaf_style, chain)
}

pub fn random_tree(rng: &mut Rng, env: &TreeEnv) -> (MaTree, &'static str) {
    let style = rng.below(12);
    let (spec, name) = match style {
        0 => (TreeSpec::leaf(0), "leaf-zero"),
        1 => (TreeSpec::leaf(5), "leaf-grad"),
        2 => (random_leaf(rng, env, 2), "leaf-any"),
        3 => {
            // gradient lookup table on property 9
            let k = rng.urange(3, 12);
            (range_table(rng, env, 9, k, Some(TreeSpec::leaf(5)), 1), "table-grad9")
        }
        4 => {
            // single-property table with identical leaf parameters
            let prop = *rng.pick(&[2u32, 3, 4, 5, 6, 7, 8, 9, 10, 11, 12, 13, 14]);
            let k = rng.urange(3, 10);
            let leaf = random_leaf(rng, env, 2);
            (range_table(rng, env, prop, k, Some(leaf), 2), "table-same-leaf")
        }
        5 => {
            let prop = if env.allow_wp && rng.chance(1, 4) { 15 } else { rng.u32range(2, 14) };
            let k = rng.urange(3, 10);
            (range_table(rng, env, prop, k, None, 2), "table-mixed-leaf")
        }
        6 => {
            // per-channel split at the top
            let v = rng.range(-1, env.num_channels as i64 - 1) as i32;
            (
                TreeSpec::D(0, v, Box::new(random_subtree(rng, env, 3, 2)), Box::new(random_subtree(rng, env, 3, 2))),
                "split-channel",
            )
        }
        7 => {
            let v = random_split(rng, env, 1);
            (
                TreeSpec::D(1, v, Box::new(random_subtree(rng, env, 3, 2)), Box::new(random_subtree(rng, env, 2, 2))),
                "split-stream",
            )
        }
        8 => (random_subtree(rng, env, 2, 2), "random-d2"),
        9 => (random_subtree(rng, env, 5, 2), "random-d5"),
        10 => (random_subtree(rng, env, 8, 2), "random-d8"),
        _ => {
            // table below a fused decision
            let prop = rng.u32range(4, 14);
            let k = rng.urange(3, 8);
            let t = range_table(rng, env, prop, k, None, 2);
            let p2 = rng.u32range(2, 14);
            let v = random_split(rng, env, p2);
            (TreeSpec::D(p2, v, Box::new(t), Box::new(random_subtree(rng, env, 2, 2))), "decision-over-table")
        }
    };
    (MaTree::from_spec(&spec), name)
}

// ---------------------------------------------------------------------------------------------
// value generators (targets the encoder tries to hit)

#[derive(Clone, Debug)]
pub enum Gen {
    Smooth { lo: i64, hi: i64, seed: u64 },
    Noise { lo: i64, hi: i64 },
    Const(i64),
    /// mostly zero, sometimes small
    Sparse { amp: i64 },
    /// blocks of constant colour (LZ77/RLE friendly)
    Blocks { lo: i64, hi: i64, size: usize, seed: u64 },
    /// explicit values (row-major, for this channel's full size)
    Values(std::sync::Arc<Vec<i32>>, usize),
}

fn hash2(seed: u64, a: u64, b: u64) -> u64 {
    let mut x = seed ^ a.wrapping_mul(0x9E3779B97F4A7C15) ^ b.wrapping_mul(0xC2B2AE3D27D4EB4F);
    x ^= x >> 29;
    x = x.wrapping_mul(0xBF58476D1CE4E5B9);
    x ^= x >> 32;
    x
}

impl Gen {
    pub fn random(rng: &mut Rng, lo: i64, hi: i64) -> Gen {
        match rng.below(8) {
            0 | 1 | 2 => Gen::Smooth { lo, hi, seed: rng.next_u64() },
            3 => Gen::Noise { lo, hi },
            4 => Gen::Const(rng.range(lo, hi)),
            5 => Gen::Sparse { amp: ((hi - lo) / 16).max(1) },
            _ => Gen::Blocks { lo, hi, size: rng.urange(2, 24), seed: rng.next_u64() },
        }
    }

    /// target value at absolute position (x, y) of the channel
    pub fn target(&self, rng: &mut Rng, x: usize, y: usize) -> i64 {
        match self {
            Gen::Smooth { lo, hi, seed } => {
                let span = (*hi - *lo).max(1) as f64;
                let fx = (seed & 0xff) as f64 / 255.0 * 0.2 + 0.01;
                let fy = ((seed >> 8) & 0xff) as f64 / 255.0 * 0.2 + 0.01;
                let ph = ((seed >> 16) & 0xff) as f64 / 40.0;
                let v = 0.5 + 0.25 * ((x as f64) * fx + ph).sin() + 0.25 * ((y as f64) * fy + (x as f64) * 0.013).cos();
                let noise = (rng.f64() - 0.5) * 0.02;
                (*lo as f64 + (v + noise).clamp(0.0, 1.0) * span).round() as i64
            }
            Gen::Noise { lo, hi } => rng.range(*lo, *hi),
            Gen::Const(v) => *v,
            Gen::Sparse { amp } => {
                if rng.chance(1, 6) {
                    rng.range(-*amp, *amp)
                } else {
                    0
                }
            }
            Gen::Blocks { lo, hi, size, seed } => {
                let h = hash2(*seed, (x / size) as u64, (y / size) as u64);
                *lo + (h % ((*hi - *lo + 1) as u64)) as i64
            }
            Gen::Values(v, w) => v[y * *w + x] as i64,
        }
    }
}

// ---------------------------------------------------------------------------------------------
// sub-image encoding

#[derive(Clone, Debug)]
pub struct SubHeader {
    pub use_global_tree: bool,
    pub wp: WpHeader,
    pub transforms: Vec<Transform>,
}

impl SubHeader {
    pub fn write(&self, bw: &mut BitWriter) {
        bw.bool(self.use_global_tree);
        write_wp_header(bw, &self.wp);
        bw.u32([D::C(0), D::C(1), D::B(2, 4), D::B(18, 8)], self.transforms.len() as u32);
        for t in &self.transforms {
            write_transform(bw, t);
        }
    }
}

pub fn write_wp_header(bw: &mut BitWriter, wp: &WpHeader) {
    bw.bool(wp.default_wp);
    if !wp.default_wp {
        bw.write(5, wp.p1 as u64);
        bw.write(5, wp.p2 as u64);
        for v in wp.p3 {
            bw.write(5, v as u64);
        }
        for v in wp.w {
            bw.write(4, v as u64);
        }
    }
}

pub fn random_wp_header(rng: &mut Rng) -> WpHeader {
    if rng.chance(2, 3) {
        return WpHeader::default();
    }
    WpHeader {
        default_wp: false,
        p1: rng.below(32) as i64,
        p2: rng.below(32) as i64,
        p3: [rng.below(32) as i64, rng.below(32) as i64, rng.below(32) as i64, rng.below(32) as i64, rng.below(32) as i64],
        w: [rng.below(16) as u32, rng.below(16) as u32, rng.below(16) as u32, rng.below(16) as u32],
    }
}

const BEGIN_C_DS: [D; 4] = [D::B(0, 3), D::B(8, 6), D::B(72, 10), D::B(1096, 13)];

pub fn write_transform(bw: &mut BitWriter, t: &Transform) {
    match t {
        Transform::Rct { begin_c, rct_type } => {
            bw.write(2, 0);
            bw.u32(BEGIN_C_DS, *begin_c);
            bw.u32([D::C(6), D::B(0, 2), D::B(2, 4), D::B(10, 6)], *rct_type);
        }
        Transform::Palette { begin_c, num_c, nb_colours, nb_deltas, d_pred } => {
            bw.write(2, 1);
            bw.u32(BEGIN_C_DS, *begin_c);
            bw.u32([D::C(1), D::C(3), D::C(4), D::B(1, 13)], *num_c);
            bw.u32([D::B(0, 8), D::B(256, 10), D::B(1280, 12), D::B(5376, 16)], *nb_colours);
            bw.u32([D::C(0), D::B(1, 8), D::B(257, 10), D::B(1281, 16)], *nb_deltas);
            bw.write(4, *d_pred as u64);
        }
        Transform::Squeeze(params) => {
            bw.write(2, 2);
            bw.u32([D::C(0), D::B(1, 4), D::B(9, 6), D::B(41, 8)], params.len() as u32);
            for p in params {
                bw.bool(p.horizontal);
                bw.bool(p.in_place);
                bw.u32(BEGIN_C_DS, p.begin_c);
                bw.u32([D::C(1), D::C(2), D::C(3), D::B(4, 4)], p.num_c);
            }
        }
    }
}

/// A tree + the entropy code for its data, shared by all streams that use it.
#[derive(Clone, Debug)]
pub struct TreeCtx {
    pub tree: MaTree,
    pub tree_name: &'static str,
}

/// Result of encoding the pixel data of one sub-bitstream.
#[derive(Clone, Debug)]
pub struct StreamData {
    pub stream_index: u32,
    pub reads: Vec<Read>,
    pub dist_multiplier: u32,
}

/// Limits for generated sample values.
#[derive(Clone, Copy, Debug)]
pub struct Range {
    pub lo: i64,
    pub hi: i64,
}

/// Encode the channels of one sub-bitstream in generative mode. `chans[i].data` is filled with
/// the decoded truth. `gens[i]` gives targets; `origin[i]` is the absolute offset of the channel
/// rect inside its parent channel (for the generators only).
pub fn encode_channels(
    rng: &mut Rng,
    tree: &MaTree,
    wp: &WpHeader,
    stream_index: u32,
    chans: &mut [Channel],
    gens: &[Gen],
    origin: &[(usize, usize)],
    range: Range,
) -> Option<StreamData> {
    let mut reads = Vec::new();
    let use_wp = tree.uses_wp();
    for i in 0..chans.len() {
        let (w, h) = (chans[i].w, chans[i].h);
        if w == 0 || h == 0 {
            continue;
        }
        // previous channels of identical shape, most recent first
        let prev: Vec<usize> = (0..i).rev().filter(|&j| chans[j].same_shape(&chans[i])).collect();
        let (before, rest) = chans.split_at_mut(i);
        let ch = &mut rest[0];
        let mut wps = if use_wp { Some(WpState::new(wp, w, h)) } else { None };
        for y in 0..h {
            let mut prop9_prev = 0i64;
            for x in 0..w {
                let nb = neighbourhood(ch, x, y);
                let mut max_error = 0;
                if let Some(s) = wps.as_mut() {
                    s.predict(&nb, x, y);
                    max_error = s.last_max_error;
                }
                let mut props = local_properties(&nb, x, y, prop9_prev, max_error);
                props[0] = i as i64;
                props[1] = stream_index as i64;
                prop9_prev = props[9];
                let leaf = {
                    let pf = |p: u32| -> i64 {
                        if p < 16 {
                            props[p as usize]
                        } else {
                            let k = ((p - 16) / 4) as usize;
                            match prev.get(k) {
                                Some(&j) => prev_channel_properties(&before[j], x, y)[((p - 16) % 4) as usize],
                                None => 0,
                            }
                        }
                    };
                    tree.lookup(&pf)
                };
                let pred = predict(leaf.predictor, &nb, wps.as_ref().map_or(0, |s| s.last_pred));
                let target = gens[i].target(rng, origin[i].0 + x, origin[i].1 + y).clamp(range.lo, range.hi);
                let base = pred + leaf.offset;
                let m = leaf.multiplier;
                // nearest multiple
                let mut q = {
                    let r = target - base;
                    let mut q = r.div_euclid(m);
                    if (r - q * m) * 2 > m {
                        q += 1;
                    }
                    q
                };
                let mut v = base + m * q;
                if v < range.lo {
                    q += (range.lo - v + m - 1) / m;
                    v = base + m * q;
                }
                if v > range.hi {
                    q -= (v - range.hi + m - 1) / m;
                    v = base + m * q;
                }
                if v < range.lo || v > range.hi || q < i32::MIN as i64 + 1 || q > i32::MAX as i64 {
                    return None;
                }
                ch.set(x, y, v as i32);
                if let Some(s) = wps.as_mut() {
                    s.record(x, y, v);
                }
                reads.push(Read { ctx: leaf.ctx, value: pack_signed(q as i32) });
            }
        }
    }
    let dist_multiplier = chans.iter().map(|c| c.w as u32).max().unwrap_or(0);
    Some(StreamData { stream_index, reads, dist_multiplier })
}

// ---------------------------------------------------------------------------------------------
// A complete Modular image (global + groups), independent of frame syntax

#[derive(Clone, Debug)]
pub struct GroupLayout {
    pub group_dim: u32,
    /// number of groups / LF groups in x and y (from the frame's colour sample size)
    pub groups_x: u32,
    pub groups_y: u32,
    pub lf_groups_x: u32,
    pub lf_groups_y: u32,
    /// per pass: (minshift, maxshift)
    pub pass_shifts: Vec<(i32, i32)>,
}

impl GroupLayout {
    pub fn new(w: u32, h: u32, group_dim: u32, pass_shifts: Vec<(i32, i32)>) -> Self {
        Self {
            group_dim,
            groups_x: w.div_ceil(group_dim),
            groups_y: h.div_ceil(group_dim),
            lf_groups_x: w.div_ceil(group_dim * 8),
            lf_groups_y: h.div_ceil(group_dim * 8),
            pass_shifts,
        }
    }
    pub fn num_groups(&self) -> u32 {
        self.groups_x * self.groups_y
    }
    pub fn num_lf_groups(&self) -> u32 {
        self.lf_groups_x * self.lf_groups_y
    }
    pub fn num_passes(&self) -> u32 {
        self.pass_shifts.len() as u32
    }
    pub fn lf_stream(&self, lf: u32) -> u32 {
        1 + self.num_lf_groups() + lf
    }
    pub fn pass_stream(&self, pass: u32, g: u32) -> u32 {
        1 + 3 * self.num_lf_groups() + 17 + pass * self.num_groups() + g
    }
    /// pass_shifts from the frame's Passes (downsample / last_pass lists)
    pub fn pass_shifts_from(num_passes: u32, downsample: &[u32], last_pass: &[u32]) -> Vec<(i32, i32)> {
        let mut v = vec![None; num_passes as usize];
        let mut maxshift = 3i32;
        for (&d, &l) in downsample.iter().zip(last_pass) {
            let minshift = d.trailing_zeros() as i32;
            v[l as usize] = Some((minshift, maxshift));
            maxshift = minshift;
        }
        v[num_passes as usize - 1] = Some((0, maxshift));
        // passes without an entry receive no channels: empty range
        v.into_iter().map(|x| x.unwrap_or((0, 0))).collect()
    }
}

/// Where one transformed channel's data lives.
#[derive(Clone, Debug, PartialEq, Eq)]
pub enum Place {
    Global,
    Lf,
    Pass(u32),
}

#[derive(Clone, Debug)]
pub struct SectionBits {
    /// bits of this modular sub-bitstream (header [+ local tree] + data), not byte aligned
    pub bw: BitWriter,
}

#[derive(Clone, Debug, Default)]
pub struct ModularOpts {
    pub bit_depth: u32,
    /// all values (incl. intermediates of the inverse transforms) must stay in this range
    pub range_lo: i64,
    pub range_hi: i64,
    /// nominal sample range for targets
    pub sample_lo: i64,
    pub sample_hi: i64,
    pub allow_wp: bool,
    pub allow_lz77: bool,
    pub plain_entropy: bool,
    /// probability (percent) that a group sub-image uses a local tree / local transforms
    pub local_tree_pct: u32,
    pub local_transform_pct: u32,
    /// force a specific global transform list (None = random)
    pub transforms: Option<Vec<Transform>>,
    pub max_transforms: usize,
    /// force tree for everything (None = random)
    pub force_tree: Option<MaTree>,
    /// allow palette indices outside [0, nb_colours) (delta / implicit entries)
    pub palette_special: bool,
    /// explicit generators for the transformed channel list (debug / directed tests)
    pub force_gens: Option<Vec<Gen>>,
}

#[derive(Clone, Debug)]
pub struct EncodedModular {
    /// truth: final channels after all inverse transforms
    pub channels: Vec<Channel>,
    /// [has_global_tree bit][global tree + code][global header][global data]
    pub global: BitWriter,
    /// per LF group; None = empty sub-image (nothing written)
    pub lf_groups: Vec<Option<BitWriter>>,
    /// [pass][group]
    pub pass_groups: Vec<Vec<Option<BitWriter>>>,
    pub desc: String,
    pub transforms: Vec<Transform>,
    /// min / max over all values incl. inverse-transform intermediates
    pub track: (i64, i64),
    pub num_samples: usize,
    pub nonzero_residuals: usize,
}

fn random_transforms(rng: &mut Rng, info: &[ChanInfo], opts: &ModularOpts) -> Vec<Transform> {
    let mut trs = Vec::new();
    let mut cur: Vec<ChanInfo> = info.to_vec();
    let mut nb_meta = 0usize;
    let n = if opts.max_transforms == 0 {
        0
    } else {
        match rng.below(4) {
            0 => 0,
            1 => 1,
            _ => rng.urange(0, opts.max_transforms),
        }
    };
    let mut tries = 0;
    while trs.len() < n && tries < 30 {
        tries += 1;
        let nch = cur.len();
        let pick = match std::env::var("JXLGEN_ONLY").ok().as_deref() {
            Some("rct") => 0,
            Some("pal") => 2,
            Some("sq") => 4,
            Some("palsq") => *rng.pick(&[2u64, 4]),
            _ => rng.below(5),
        };
        let t = match pick {
            0 | 1 => {
                if nch < 3 {
                    continue;
                }
                Transform::Rct { begin_c: rng.below(nch as u64 - 2) as u32, rct_type: rng.below(42) as u32 }
            }
            2 | 3 => {
                let begin_c = rng.below(nch as u64) as u32;
                let num_c = match rng.below(4) {
                    0 => 1,
                    1 => 3,
                    2 => 4,
                    _ => rng.u32range(1, 5),
                };
                let nb_colours = match rng.below(4) {
                    0 => rng.u32range(1, 8),
                    1 => rng.u32range(1, 255),
                    2 => rng.u32range(0, 40),
                    _ => rng.u32range(256, 600),
                };
                let special = opts.palette_special && num_c <= 3 && rng.chance(1, 2);
                let nb_deltas = if special && rng.bool() { rng.u32range(1, nb_colours.max(1).min(20)) } else { 0 };
                let d_pred = if nb_deltas > 0 {
                    let p = rng.below(14) as u32;
                    if p == 6 && !opts.allow_wp { 5 } else { p }
                } else {
                    rng.below(14) as u32
                };
                Transform::Palette { begin_c, num_c, nb_colours, nb_deltas, d_pred }
            }
            _ => {
                if rng.chance(1, 2) {
                    Transform::Squeeze(vec![])
                } else {
                    let k = rng.urange(1, 4);
                    let mut ps = Vec::new();
                    let mut tmp = cur.clone();
                    let mut tm = nb_meta;
                    for _ in 0..k {
                        let len = tmp.len();
                        if len <= tm {
                            break;
                        }
                        let begin_c = rng.urange(tm, len - 1) as u32;
                        let num_c = rng.u32range(1, (len as u32 - begin_c).min(4));
                        let p = SqueezeParam { horizontal: rng.bool(), in_place: rng.bool(), begin_c, num_c };
                        if transform_info(&Transform::Squeeze(vec![p]), &mut tmp, &mut tm).is_err() {
                            break;
                        }
                        ps.push(p);
                    }
                    if ps.is_empty() {
                        continue;
                    }
                    Transform::Squeeze(ps)
                }
            }
        };
        let mut c2 = cur.clone();
        let mut m2 = nb_meta;
        if transform_info(&t, &mut c2, &mut m2).is_ok() {
            // keep channel shapes sane: no zero-sized channels to squeeze later etc.
            cur = c2;
            nb_meta = m2;
            trs.push(t);
        }
    }
    trs
}

/// Generators for a transformed channel list: decide by the role of each channel.
fn gens_for(
    rng: &mut Rng,
    transforms: &[Transform],
    infos_before: &[(Vec<ChanInfo>, usize)],
    final_info: &[ChanInfo],
    opts: &ModularOpts,
) -> Vec<Gen> {
    // Walk the transforms forward, tracking a role per channel.
    #[derive(Clone, Debug)]
    enum Role {
        Sample,
        Residual,
        PaletteTable,
        Index { nb_colours: i64, special: bool },
        Chroma,
    }
    let n0 = infos_before.first().map(|x| x.0.len()).unwrap_or(final_info.len());
    let mut roles: Vec<Role> = vec![Role::Sample; n0];
    for (i, t) in transforms.iter().enumerate() {
        match t {
            Transform::Rct { begin_c, rct_type } => {
                let b = *begin_c as usize;
                if rct_type % 7 != 0 {
                    // after a forward RCT two of the channels are differences
                    for k in 1..3 {
                        if matches!(roles[b + k], Role::Sample) {
                            roles[b + k] = Role::Chroma;
                        }
                    }
                }
            }
            Transform::Palette { begin_c, num_c, nb_colours, nb_deltas, .. } => {
                let b = *begin_c as usize;
                let n = *num_c as usize;
                roles.drain(b + 1..b + n);
                roles[b] = Role::Index { nb_colours: *nb_colours as i64, special: opts.palette_special && n <= 3 || *nb_deltas > 0 };
                roles.insert(0, Role::PaletteTable);
            }
            Transform::Squeeze(p) => {
                let params = if p.is_empty() { default_squeeze_params(&infos_before[i].0, infos_before[i].1) } else { p.clone() };
                for sp in &params {
                    let b = sp.begin_c as usize;
                    let e = b + sp.num_c as usize;
                    let res: Vec<Role> = (b..e).map(|_| Role::Residual).collect();
                    if sp.in_place {
                        let tail: Vec<Role> = roles.drain(e..).collect();
                        roles.extend(res);
                        roles.extend(tail);
                    } else {
                        roles.extend(res);
                    }
                }
            }
        }
    }
    assert_eq!(roles.len(), final_info.len());
    let span = opts.sample_hi - opts.sample_lo;
    roles
        .iter()
        .map(|r| match r {
            Role::Sample => Gen::random(rng, opts.sample_lo, opts.sample_hi),
            Role::Chroma => {
                let a = (span / 8).max(1);
                Gen::random(rng, -a, a)
            }
            Role::Residual => {
                let a = (span / 32).max(1);
                if rng.bool() { Gen::Sparse { amp: a } } else { Gen::Noise { lo: -a, hi: a } }
            }
            Role::PaletteTable => Gen::Noise { lo: opts.sample_lo, hi: opts.sample_hi },
            Role::Index { nb_colours, special } => {
                let n = *nb_colours;
                if *special {
                    // mostly in range, some delta (<0) and implicit (>= nb_colours) entries
                    Gen::Noise { lo: -rng.range(0, 150), hi: n + rng.range(0, 200) }
                } else if n == 0 {
                    // no explicit colours at all: only implicit entries are meaningful; without
                    // `special` use a constant implicit index
                    Gen::Const(0)
                } else {
                    match rng.below(3) {
                        0 => Gen::Noise { lo: 0, hi: n - 1 },
                        1 => Gen::Blocks { lo: 0, hi: n - 1, size: rng.urange(2, 16), seed: rng.next_u64() },
                        _ => Gen::Smooth { lo: 0, hi: n - 1, seed: rng.next_u64() },
                    }
                }
            }
        })
        .collect()
}

/// Index channels must be exactly in range unless special entries are allowed: clamp range per
/// channel.
fn index_ranges(transforms: &[Transform], infos_before: &[(Vec<ChanInfo>, usize)], nfinal: usize, opts: &ModularOpts) -> Vec<Option<Range>> {
    let n0 = infos_before.first().map(|x| x.0.len()).unwrap_or(nfinal);
    let mut r: Vec<Option<Range>> = vec![None; n0];
    for (i, t) in transforms.iter().enumerate() {
        match t {
            Transform::Rct { .. } => {}
            Transform::Palette { begin_c, num_c, nb_colours, nb_deltas, .. } => {
                let b = *begin_c as usize;
                let n = *num_c as usize;
                r.drain(b + 1..b + n);
                let special = (opts.palette_special && n <= 3) || *nb_deltas > 0;
                r[b] = if special {
                    // implicit entries for channels >= 3 are not used (ambiguous in the format
                    // text), deltas need c < 3 as well
                    if n <= 3 { None } else { Some(Range { lo: 0, hi: *nb_colours as i64 - 1 }) }
                } else {
                    Some(Range { lo: 0, hi: (*nb_colours as i64 - 1).max(0) })
                };
                r.insert(0, None);
            }
            Transform::Squeeze(p) => {
                let params = if p.is_empty() { default_squeeze_params(&infos_before[i].0, infos_before[i].1) } else { p.clone() };
                for sp in &params {
                    let b = sp.begin_c as usize;
                    let e = b + sp.num_c as usize;
                    let res: Vec<Option<Range>> = (b..e).map(|_| None).collect();
                    if sp.in_place {
                        let tail: Vec<Option<Range>> = r.drain(e..).collect();
                        r.extend(res);
                        r.extend(tail);
                    } else {
                        r.extend(res);
                    }
                }
            }
        }
    }
    r
}

fn data_code(
    rng: &mut Rng,
    num_leaves: u32,
    streams: &[StreamData],
    opts: &ModularOpts,
) -> (EntropyCode, Vec<Vec<Item>>) {
    let use_prefix = rng.bool();
    let maxv = streams.iter().flat_map(|s| s.reads.iter().map(|r| r.value)).max().unwrap_or(0);
    for attempt in 0..6 {
        let want_lz = opts.allow_lz77 && attempt < 4 && rng.chance(1, 3);
        let mut bopts = BuildOpts {
            use_prefix: Some(use_prefix),
            plain: opts.plain_entropy,
            ..Default::default()
        };
        let lz = if want_lz { Some(random_lz77_params(rng, use_prefix, maxv)) } else { None };
        let limit = if use_prefix { 1 << 15 } else { 256 };
        let per_stream: Vec<Vec<Item>> = streams
            .iter()
            .map(|s| match &lz {
                Some(lz) => {
                    let pct = rng.u32range(5, 60);
                    plan_lz77(rng, &s.reads, lz, s.dist_multiplier, pct, limit)
                }
                None => lits(&s.reads),
            })
            .collect();
        bopts.lz77 = lz;
        let all: Vec<Item> = per_stream.iter().flatten().copied().collect();
        if let Some(code) = EntropyCode::try_build(rng, num_leaves, &all, &bopts) {
            return (code, per_stream);
        }
    }
    let bopts = BuildOpts { use_prefix: Some(true), plain: opts.plain_entropy, ..Default::default() };
    let per_stream: Vec<Vec<Item>> = streams.iter().map(|s| lits(&s.reads)).collect();
    let all: Vec<Item> = per_stream.iter().flatten().copied().collect();
    (EntropyCode::build(rng, num_leaves, &all, &bopts), per_stream)
}

fn write_tree(bw: &mut BitWriter, rng: &mut Rng, tree: &MaTree, opts: &ModularOpts) {
    let reads = tree.reads();
    let maxv = reads.iter().map(|r| r.value).max().unwrap_or(0);
    let use_prefix = rng.bool();
    let mut bopts = BuildOpts { use_prefix: Some(use_prefix), plain: opts.plain_entropy, ..Default::default() };
    let mut items = lits(&reads);
    if opts.allow_lz77 && rng.chance(1, 5) {
        let lz = random_lz77_params(rng, use_prefix, maxv);
        let it = plan_lz77(rng, &reads, &lz, 0, 30, if use_prefix { 1 << 15 } else { 256 });
        bopts.lz77 = Some(lz);
        if EntropyCode::try_build(&mut rng.fork(), 6, &it, &bopts).is_some() {
            items = it;
        } else {
            bopts.lz77 = None;
        }
    }
    // The decoder rejects tree codes in which context 1 (node type) can only ever produce a
    // non-zero token ("infinite tree"): context 1 always contains a 0 (every tree has a leaf), so
    // that cannot happen for a valid tree.
    let code = match EntropyCode::try_build(rng, 6, &items, &bopts) {
        Some(c) => c,
        None => {
            bopts.lz77 = None;
            items = lits(&reads);
            EntropyCode::build(rng, 6, &items, &bopts)
        }
    };
    code.write_header(bw, rng);
    code.write_items(bw, &items);
}

struct SubPlan {
    place: Place,
    /// group index (LF group or group)
    idx: u32,
    stream_index: u32,
    /// (channel index in the global transformed list, x0, y0, w, h)
    rects: Vec<(usize, usize, usize, usize, usize)>,
}

/// Encode a whole Modular image: `info` are the untransformed channels (colour + extra).
pub fn encode_modular(
    rng: &mut Rng,
    info: &[ChanInfo],
    layout: &GroupLayout,
    opts: &ModularOpts,
) -> Option<EncodedModular> {
    let mut desc = String::new();
    if info.is_empty() {
        // nothing at all: only the "no global tree" bit
        let mut g = BitWriter::new();
        g.bool(false);
        return Some(EncodedModular {
            channels: vec![],
            global: g,
            lf_groups: vec![None; layout.num_lf_groups() as usize],
            pass_groups: vec![vec![None; layout.num_groups() as usize]; layout.num_passes() as usize],
            desc: "empty".into(),
            transforms: vec![],
            track: (0, 0),
            num_samples: 0,
            nonzero_residuals: 0,
        });
    }
    // ---- global transforms and resulting channel list
    let transforms = match &opts.transforms {
        Some(t) => t.clone(),
        None => random_transforms(rng, info, opts),
    };
    let mut cur: Vec<ChanInfo> = info.to_vec();
    let mut nb_meta = 0usize;
    let mut infos_before = Vec::new();
    for t in &transforms {
        infos_before.push((cur.clone(), nb_meta));
        transform_info(t, &mut cur, &mut nb_meta).ok()?;
    }
    let tinfo = cur;
    if tinfo.len() > 60 {
        return None;
    }
    let gd = layout.group_dim as usize;
    // ---- partition
    let mut nglobal = 0;
    for (i, c) in tinfo.iter().enumerate() {
        if i < nb_meta || (c.w <= gd && c.h <= gd) {
            nglobal = i + 1;
        } else {
            break;
        }
    }
    let mut plans: Vec<SubPlan> = Vec::new();
    plans.push(SubPlan {
        place: Place::Global,
        idx: 0,
        stream_index: 0,
        rects: (0..nglobal).map(|i| (i, 0, 0, tinfo[i].w, tinfo[i].h)).collect(),
    });
    let mut lf_plans: Vec<SubPlan> = (0..layout.num_lf_groups())
        .map(|g| SubPlan { place: Place::Lf, idx: g, stream_index: layout.lf_stream(g), rects: vec![] })
        .collect();
    let mut pass_plans: Vec<Vec<SubPlan>> = (0..layout.num_passes())
        .map(|p| {
            (0..layout.num_groups())
                .map(|g| SubPlan { place: Place::Pass(p), idx: g, stream_index: layout.pass_stream(p, g), rects: vec![] })
                .collect()
        })
        .collect();
    for i in nglobal..tinfo.len() {
        let c = tinfo[i];
        if c.hshift < 0 || c.vshift < 0 {
            return None; // meta channel outside the global section cannot happen legally
        }
        if c.hshift >= 3 && c.vshift >= 3 {
            let gw = (gd * 8) >> c.hshift;
            let gh = (gd * 8) >> c.vshift;
            if gw == 0 || gh == 0 {
                return None;
            }
            for gy in 0..layout.lf_groups_y as usize {
                for gx in 0..layout.lf_groups_x as usize {
                    let x0 = gx * gw;
                    let y0 = gy * gh;
                    let w = c.w.saturating_sub(x0).min(gw);
                    let h = c.h.saturating_sub(y0).min(gh);
                    if w == 0 || h == 0 {
                        continue;
                    }
                    lf_plans[gy * layout.lf_groups_x as usize + gx].rects.push((i, x0, y0, w, h));
                }
            }
        } else {
            let shift = c.hshift.min(c.vshift);
            let pass = layout.pass_shifts.iter().position(|&(mn, mx)| mn <= shift && shift < mx)?;
            let gw = gd >> c.hshift;
            let gh = gd >> c.vshift;
            if gw == 0 || gh == 0 {
                return None;
            }
            for gy in 0..layout.groups_y as usize {
                for gx in 0..layout.groups_x as usize {
                    let x0 = gx * gw;
                    let y0 = gy * gh;
                    let w = c.w.saturating_sub(x0).min(gw);
                    let h = c.h.saturating_sub(y0).min(gh);
                    if w == 0 || h == 0 {
                        continue;
                    }
                    pass_plans[pass][gy * layout.groups_x as usize + gx].rects.push((i, x0, y0, w, h));
                }
            }
            // a channel whose data does not fit the group grid would be lost
            if c.w > gw * layout.groups_x as usize || c.h > gh * layout.groups_y as usize {
                return None;
            }
        }
    }
    plans.extend(lf_plans);
    for p in pass_plans {
        plans.extend(p);
    }

    // ---- trees
    let all_streams: Vec<u32> = plans.iter().filter(|p| !p.rects.is_empty()).map(|p| p.stream_index).collect();
    let amp = opts.sample_hi.abs().max(opts.sample_lo.abs()).max(4);
    let env_for = |nch: usize, streams: &[u32], mw: usize, mh: usize, max_prev: u32| TreeEnv {
        num_channels: nch as u32,
        stream_indices: streams.to_vec(),
        max_w: mw as u32,
        max_h: mh as u32,
        amp,
        allow_mul: true,
        allow_wp: opts.allow_wp,
        max_prev,
    };
    let gmax_w = tinfo.iter().map(|c| c.w).max().unwrap_or(1).min(gd.max(64));
    let gmax_h = tinfo.iter().map(|c| c.h).max().unwrap_or(1).min(gd.max(64));
    let global_tree = match &opts.force_tree {
        Some(t) => TreeCtx { tree: t.clone(), tree_name: "forced" },
        None => {
            let env = env_for(tinfo.len().min(8), &all_streams, gmax_w, gmax_h, 2);
            let (tree, name) = random_tree(rng, &env);
            TreeCtx { tree, tree_name: name }
        }
    };
    let have_global_tree = opts.force_tree.is_some() || !rng.chance(1, 6);
    if std::env::var("JXLGEN_DEBUG").is_ok() {
        eprintln!("global tree: {:?}", global_tree.tree.nodes);
    }
    desc.push_str(&format!("gtree={}{} ", if have_global_tree { "" } else { "none:" }, global_tree.tree_name));

    // ---- generators and ranges for the transformed channels
    let gens = match &opts.force_gens {
        Some(g) => g.clone(),
        None => gens_for(rng, &transforms, &infos_before, &tinfo, opts),
    };
    let iranges = index_ranges(&transforms, &infos_before, tinfo.len(), opts);
    let full_range = Range { lo: opts.range_lo, hi: opts.range_hi };
    let global_wp = if opts.allow_wp { random_wp_header(rng) } else { WpHeader::default() };

    // ---- transformed channel storage
    let mut tch: Vec<Channel> = tinfo.iter().map(|c| Channel::new(c.w, c.h, c.hshift, c.vshift)).collect();

    struct Encoded {
        place: Place,
        idx: u32,
        header: SubHeader,
        local_tree: Option<TreeCtx>,
        data: StreamData,
    }
    let mut encoded: Vec<Encoded> = Vec::new();
    let mut track = (0i64, 0i64);
    for plan in &plans {
        if plan.rects.is_empty() {
            continue;
        }
        let is_global = plan.place == Place::Global;
        let use_global_tree = have_global_tree && !(rng.below(100) < opts.local_tree_pct as u64);
        // sub-image channels (untransformed within the group)
        let sub_info: Vec<ChanInfo> = plan
            .rects
            .iter()
            .map(|&(i, _, _, w, h)| ChanInfo { w, h, hshift: tinfo[i].hshift, vshift: tinfo[i].vshift })
            .collect();
        // local transforms only for group sub-images (the global ones are `transforms`)
        let local_trs: Vec<Transform> = if !is_global && rng.below(100) < opts.local_transform_pct as u64 {
            let lo = ModularOpts { max_transforms: 2, transforms: None, ..opts.clone() };
            // squeeze on group sub-images changes shifts only; allowed but keep it rarer
            random_transforms(rng, &sub_info, &lo)
        } else {
            vec![]
        };
        let mut lcur = sub_info.clone();
        let mut lmeta = if is_global { 0 } else { 0 };
        let mut linfos_before = Vec::new();
        let mut ok = true;
        for t in &local_trs {
            linfos_before.push((lcur.clone(), lmeta));
            if transform_info(t, &mut lcur, &mut lmeta).is_err() {
                ok = false;
                break;
            }
        }
        let (local_trs, lcur, linfos_before) = if ok { (local_trs, lcur, linfos_before) } else { (vec![], sub_info.clone(), vec![]) };
        let wp = if is_global { global_wp.clone() } else if opts.allow_wp && rng.chance(1, 3) { random_wp_header(rng) } else { WpHeader::default() };
        let header = SubHeader {
            use_global_tree,
            wp: wp.clone(),
            transforms: if is_global { transforms.clone() } else { local_trs.clone() },
        };
        let local_tree = if use_global_tree {
            None
        } else {
            let mw = lcur.iter().map(|c| c.w).max().unwrap_or(1);
            let mh = lcur.iter().map(|c| c.h).max().unwrap_or(1);
            let env = env_for(lcur.len(), &[plan.stream_index], mw, mh, 2);
            let (tree, name) = match &opts.force_tree {
                Some(t) => (t.clone(), "forced"),
                None => random_tree(rng, &env),
            };
            Some(TreeCtx { tree, tree_name: name })
        };
        let tree = match &local_tree {
            Some(t) => &t.tree,
            None => &global_tree.tree,
        };
        // channels to encode in this stream
        let (mut chans, cgens, origins, cranges): (Vec<Channel>, Vec<Gen>, Vec<(usize, usize)>, Vec<Option<Range>>) = if local_trs.is_empty() {
            (
                plan.rects.iter().map(|&(i, _, _, w, h)| Channel::new(w, h, tinfo[i].hshift, tinfo[i].vshift)).collect(),
                plan.rects.iter().map(|&(i, ..)| gens[i].clone()).collect(),
                plan.rects.iter().map(|&(_, x0, y0, ..)| (x0, y0)).collect(),
                plan.rects.iter().map(|&(i, ..)| iranges[i]).collect(),
            )
        } else {
            let lo = ModularOpts { ..opts.clone() };
            let g = gens_for(rng, &local_trs, &linfos_before, &lcur, &lo);
            let r = index_ranges(&local_trs, &linfos_before, lcur.len(), &lo);
            (
                lcur.iter().map(|c| Channel::new(c.w, c.h, c.hshift, c.vshift)).collect(),
                g,
                lcur.iter().map(|_| (0, 0)).collect(),
                r,
            )
        };
        // encode channel by channel with per-channel ranges: do it by calling encode_channels on
        // the whole list but with the tightest range handled through generator clamping; index
        // channels need a hard range, so encode with per-channel hard ranges here.
        let data = encode_channels_ranges(rng, tree, &wp, plan.stream_index, &mut chans, &cgens, &origins, full_range, &cranges)?;
        // local inverse transforms -> the group's rect content
        if !local_trs.is_empty() {
            inverse_transforms(&mut chans, &local_trs, &linfos_before, opts.bit_depth, &wp, &mut track);
            if chans.len() != plan.rects.len() {
                return None;
            }
            // A group whose local palette produced values that are illegal for a *global* index
            // channel would break the outer palette: check ranges of pasted values below.
        }
        for (k, &(i, x0, y0, w, h)) in plan.rects.iter().enumerate() {
            if chans[k].w != w || chans[k].h != h {
                return None;
            }
            for y in 0..h {
                for x in 0..w {
                    let v = chans[k].at(x, y);
                    if let Some(r) = iranges[i] {
                        if (v as i64) < r.lo || (v as i64) > r.hi {
                            return None;
                        }
                    }
                    if (v as i64) < opts.range_lo || (v as i64) > opts.range_hi {
                        return None;
                    }
                    tch[i].set(x0 + x, y0 + y, v);
                }
            }
        }
        encoded.push(Encoded { place: plan.place.clone(), idx: plan.idx, header, local_tree, data });
    }

    // ---- truth
    let num_samples: usize = tch.iter().map(|c| c.data.len()).sum();
    for c in &tch {
        for &v in &c.data {
            track.0 = track.0.min(v as i64);
            track.1 = track.1.max(v as i64);
        }
    }
    let mut truth = tch.clone();
    inverse_transforms(&mut truth, &transforms, &infos_before, opts.bit_depth, &global_wp, &mut track);
    if track.0 < opts.range_lo || track.1 > opts.range_hi {
        return None;
    }
    if truth.len() != info.len() {
        return None;
    }

    // ---- entropy codes
    // global tree code over all streams using it
    let gl_streams: Vec<StreamData> = encoded.iter().filter(|e| e.header.use_global_tree).map(|e| e.data.clone()).collect();
    let (gcode, gitems) = data_code(rng, global_tree.tree.num_leaves, &gl_streams, opts);
    let nonzero_residuals = encoded.iter().map(|e| e.data.reads.iter().filter(|r| r.value != 0).count()).sum();

    let mut global = BitWriter::new();
    let mut lf_groups: Vec<Option<BitWriter>> = vec![None; layout.num_lf_groups() as usize];
    let mut pass_groups: Vec<Vec<Option<BitWriter>>> = vec![vec![None; layout.num_groups() as usize]; layout.num_passes() as usize];
    global.bool(have_global_tree);
    if have_global_tree {
        write_tree(&mut global, rng, &global_tree.tree, opts);
        gcode.write_header(&mut global, rng);
    }
    let mut gi = 0usize;
    let mut wrote_global = false;
    let mut local_names = std::collections::BTreeSet::new();
    for e in &encoded {
        let mut bw = BitWriter::new();
        e.header.write(&mut bw);
        if e.header.use_global_tree {
            gcode.write_items(&mut bw, &gitems[gi]);
            gi += 1;
        } else {
            let lt = e.local_tree.as_ref().unwrap();
            local_names.insert(lt.tree_name);
            write_tree(&mut bw, rng, &lt.tree, opts);
            let (code, items) = data_code(rng, lt.tree.num_leaves, std::slice::from_ref(&e.data), opts);
            code.write_header(&mut bw, rng);
            code.write_items(&mut bw, &items[0]);
        }
        match e.place {
            Place::Global => {
                global.append_bits(&bw);
                wrote_global = true;
            }
            Place::Lf => lf_groups[e.idx as usize] = Some(bw),
            Place::Pass(p) => pass_groups[p as usize][e.idx as usize] = Some(bw),
        }
    }
    if !wrote_global {
        // The global ModularHeader is always present when there are channels, even if every
        // channel lives in groups (then no global data follows)
        let header = SubHeader { use_global_tree: have_global_tree, wp: global_wp.clone(), transforms: transforms.clone() };
        let mut bw = BitWriter::new();
        header.write(&mut bw);
        if !have_global_tree {
            // a local tree is required syntactically
            let t = MaTree::from_spec(&TreeSpec::leaf(0));
            write_tree(&mut bw, rng, &t, opts);
            let (code, _) = data_code(rng, 1, &[], opts);
            code.write_header(&mut bw, rng);
        }
        // an (empty) entropy stream still carries the ANS state when the decoder calls begin():
        let code_is_ans = if have_global_tree { gcode.is_ans() } else { false };
        let _ = code_is_ans;
        return None; // keep generation simple: require some global channel data
    }
    desc.push_str(&format!(
        "tr=[{}] nch={} nglobal={} groups={}x{} lf={} passes={} local_trees={:?}",
        transforms.iter().map(|t| match t { Transform::Rct { rct_type, .. } => format!("rct{rct_type}"), Transform::Palette { num_c, nb_deltas, .. } => format!("pal{}{}", num_c, if *nb_deltas > 0 { "d" } else { "" }), Transform::Squeeze(p) => format!("sq{}", p.len()) }).collect::<Vec<_>>().join(","),
        tinfo.len(), nglobal, layout.groups_x, layout.groups_y, layout.num_lf_groups(), layout.num_passes(), local_names
    ));
    Some(EncodedModular { channels: truth, global, lf_groups, pass_groups, desc, transforms, track, num_samples, nonzero_residuals })
}

/// Like `encode_channels` but with an optional tighter hard range per channel.
#[allow(clippy::too_many_arguments)]
pub fn encode_channels_ranges(
    rng: &mut Rng,
    tree: &MaTree,
    wp: &WpHeader,
    stream_index: u32,
    chans: &mut [Channel],
    gens: &[Gen],
    origin: &[(usize, usize)],
    range: Range,
    per_channel: &[Option<Range>],
) -> Option<StreamData> {
    // encode_channels uses one range; run it channel-prefix by channel-prefix would lose the
    // previous-channel context, so the per-channel variant re-implements the loop via a closure:
    let mut reads = Vec::new();
    let use_wp = tree.uses_wp();
    for i in 0..chans.len() {
        let (w, h) = (chans[i].w, chans[i].h);
        if w == 0 || h == 0 {
            continue;
        }
        let r = per_channel[i].unwrap_or(range);
        let prev: Vec<usize> = (0..i).rev().filter(|&j| chans[j].same_shape(&chans[i])).collect();
        let (before, rest) = chans.split_at_mut(i);
        let ch = &mut rest[0];
        let mut wps = if use_wp { Some(WpState::new(wp, w, h)) } else { None };
        for y in 0..h {
            let mut prop9_prev = 0i64;
            for x in 0..w {
                let nb = neighbourhood(ch, x, y);
                let mut max_error = 0;
                if let Some(s) = wps.as_mut() {
                    s.predict(&nb, x, y);
                    max_error = s.last_max_error;
                }
                let mut props = local_properties(&nb, x, y, prop9_prev, max_error);
                props[0] = i as i64;
                props[1] = stream_index as i64;
                prop9_prev = props[9];
                let leaf = {
                    let pf = |p: u32| -> i64 {
                        if p < 16 {
                            props[p as usize]
                        } else {
                            let k = ((p - 16) / 4) as usize;
                            match prev.get(k) {
                                Some(&j) => prev_channel_properties(&before[j], x, y)[((p - 16) % 4) as usize],
                                None => 0,
                            }
                        }
                    };
                    tree.lookup(&pf)
                };
                let pred = predict(leaf.predictor, &nb, wps.as_ref().map_or(0, |s| s.last_pred));
                let target = gens[i].target(rng, origin[i].0 + x, origin[i].1 + y).clamp(r.lo, r.hi);
                let base = pred + leaf.offset;
                let m = leaf.multiplier;
                let mut q = {
                    let d = target - base;
                    let mut q = d.div_euclid(m);
                    if (d - q * m) * 2 > m {
                        q += 1;
                    }
                    q
                };
                let mut v = base + m * q;
                if v < r.lo {
                    q += (r.lo - v + m - 1) / m;
                    v = base + m * q;
                }
                if v > r.hi {
                    q -= (v - r.hi + m - 1) / m;
                    v = base + m * q;
                }
                if v < r.lo || v > r.hi || q <= i32::MIN as i64 || q > i32::MAX as i64 {
                    return None;
                }
                ch.set(x, y, v as i32);
                if let Some(s) = wps.as_mut() {
                    s.record(x, y, v);
                }
                reads.push(Read { ctx: leaf.ctx, value: pack_signed(q as i32) });
            }
        }
    }
    let dist_multiplier = chans.iter().map(|c| c.w as u32).max().unwrap_or(0);
    Some(StreamData { stream_index, reads, dist_multiplier })
}
