//! Image header, frame header and TOC writers (the format's conditional field layout), with the
//! truth kept in plain structs. Floats are kept as F16 bit patterns so comparisons are exact.

use crate::bits::{pack_signed, BitWriter, D};
use crate::entropy::{lits, BuildOpts, EntropyCode, Read};
use crate::rng::Rng;

// ---------------------------------------------------------------------------------------------
// SizeHeader / PreviewHeader

pub fn ratio_width(ratio: u32, height: u32) -> u32 {
    let h = height as u64;
    (match ratio {
        1 => h,
        2 => h * 12 / 10,
        3 => h * 4 / 3,
        4 => h * 3 / 2,
        5 => h * 16 / 9,
        6 => h * 5 / 4,
        7 => h * 2,
        _ => panic!("ratio"),
    }) as u32
}

#[derive(Clone, Debug, PartialEq, Eq)]
pub struct SizeHeader {
    pub width: u32,
    pub height: u32,
    /// representation: use the div8 form
    pub div8: bool,
    /// representation: aspect ratio code (0 = explicit width)
    pub ratio: u32,
}

impl SizeHeader {
    pub fn new(width: u32, height: u32) -> Self {
        Self {
            width,
            height,
            div8: false,
            ratio: 0,
        }
    }

    /// Pick a random legal representation for (width, height).
    pub fn with_random_repr(width: u32, height: u32, rng: &mut Rng) -> Self {
        let mut ratios = if width <= 1 << 30 { vec![0u32] } else { vec![] };
        for r in 1..=7 {
            if ratio_width(r, height) == width {
                ratios.push(r);
            }
        }
        assert!(!ratios.is_empty(), "width {width} not representable");
        let ratio = *rng.pick(&ratios);
        let div8_ok = height % 8 == 0
            && height / 8 >= 1
            && height / 8 <= 32
            && (ratio != 0 || (width % 8 == 0 && width / 8 >= 1 && width / 8 <= 32));
        let div8 = div8_ok && rng.bool();
        Self {
            width,
            height,
            div8,
            ratio,
        }
    }

    pub fn write(&self, bw: &mut BitWriter) {
        const DS: [D; 4] = [D::B(1, 9), D::B(1, 13), D::B(1, 18), D::B(1, 30)];
        bw.bool(self.div8);
        if self.div8 {
            bw.write(5, (self.height / 8 - 1) as u64);
        } else {
            bw.u32(DS, self.height);
        }
        bw.write(3, self.ratio as u64);
        if self.ratio == 0 {
            if self.div8 {
                bw.write(5, (self.width / 8 - 1) as u64);
            } else {
                bw.u32(DS, self.width);
            }
        }
    }
}

#[derive(Clone, Debug, PartialEq, Eq)]
pub struct PreviewHeader {
    pub width: u32,
    pub height: u32,
    pub div8: bool,
    pub ratio: u32,
}

impl PreviewHeader {
    pub fn with_random_repr(width: u32, height: u32, rng: &mut Rng) -> Self {
        let mut ratios = if width <= 5440 { vec![0u32] } else { vec![] };
        for r in 1..=7 {
            if ratio_width(r, height) == width {
                ratios.push(r);
            }
        }
        assert!(!ratios.is_empty(), "preview width {width} not representable");
        let ratio = *rng.pick(&ratios);
        let d8 = |v: u32| v % 8 == 0 && v / 8 >= 1 && v / 8 <= 33 + 511;
        let div8_ok = d8(height) && (ratio != 0 || d8(width));
        Self {
            width,
            height,
            div8: div8_ok && rng.bool(),
            ratio,
        }
    }

    pub fn write(&self, bw: &mut BitWriter) {
        const D8: [D; 4] = [D::C(16), D::C(32), D::B(1, 5), D::B(33, 9)];
        const DS: [D; 4] = [D::B(1, 6), D::B(65, 8), D::B(321, 10), D::B(1345, 12)];
        bw.bool(self.div8);
        if self.div8 {
            bw.u32(D8, self.height / 8);
        } else {
            bw.u32(DS, self.height);
        }
        bw.write(3, self.ratio as u64);
        if self.ratio == 0 {
            if self.div8 {
                bw.u32(D8, self.width / 8);
            } else {
                bw.u32(DS, self.width);
            }
        }
    }
}

// ---------------------------------------------------------------------------------------------

#[derive(Clone, Debug, PartialEq, Eq)]
pub struct AnimationHeader {
    pub tps_numerator: u32,
    pub tps_denominator: u32,
    pub num_loops: u32,
    pub have_timecodes: bool,
}

impl AnimationHeader {
    pub fn write(&self, bw: &mut BitWriter) {
        bw.u32([D::C(100), D::C(1000), D::B(1, 10), D::B(1, 30)], self.tps_numerator);
        bw.u32([D::C(1), D::C(1001), D::B(1, 8), D::B(1, 10)], self.tps_denominator);
        bw.u32([D::C(0), D::B(0, 3), D::B(0, 16), D::B(0, 32)], self.num_loops);
        bw.bool(self.have_timecodes);
    }
}

#[derive(Clone, Copy, Debug, PartialEq, Eq)]
pub enum BitDepth {
    Int { bits: u32 },
    Float { bits: u32, exp_bits: u32 },
}

impl Default for BitDepth {
    fn default() -> Self {
        BitDepth::Int { bits: 8 }
    }
}

impl BitDepth {
    pub fn bits(&self) -> u32 {
        match *self {
            BitDepth::Int { bits } => bits,
            BitDepth::Float { bits, .. } => bits,
        }
    }
    pub fn write(&self, bw: &mut BitWriter) {
        match *self {
            BitDepth::Int { bits } => {
                bw.bool(false);
                bw.u32([D::C(8), D::C(10), D::C(12), D::B(1, 6)], bits);
            }
            BitDepth::Float { bits, exp_bits } => {
                bw.bool(true);
                bw.u32([D::C(32), D::C(16), D::C(24), D::B(1, 6)], bits);
                bw.write(4, (exp_bits - 1) as u64);
            }
        }
    }
}

#[derive(Clone, Debug, PartialEq)]
pub enum EcType {
    Alpha { associated: bool },
    Depth,
    Spot { rgbs: [u16; 4] },
    SelectionMask,
    Black,
    Cfa { channel: u32 },
    Thermal,
    NonOptional,
    Optional,
}

impl EcType {
    pub fn code(&self) -> u32 {
        match self {
            EcType::Alpha { .. } => 0,
            EcType::Depth => 1,
            EcType::Spot { .. } => 2,
            EcType::SelectionMask => 3,
            EcType::Black => 4,
            EcType::Cfa { .. } => 5,
            EcType::Thermal => 6,
            EcType::NonOptional => 15,
            EcType::Optional => 16,
        }
    }
}

#[derive(Clone, Debug, PartialEq)]
pub struct ExtraChannelInfo {
    /// written with the one-bit "default alpha channel" form (then the other fields must be the
    /// defaults: Alpha non-associated, 8-bit int, dim_shift 0, empty name)
    pub d_alpha: bool,
    pub ty: EcType,
    pub bit_depth: BitDepth,
    pub dim_shift: u32,
    pub name: String,
}

impl ExtraChannelInfo {
    pub fn default_alpha() -> Self {
        Self {
            d_alpha: true,
            ty: EcType::Alpha { associated: false },
            bit_depth: BitDepth::default(),
            dim_shift: 0,
            name: String::new(),
        }
    }

    pub fn new(ty: EcType, bit_depth: BitDepth, dim_shift: u32, name: &str) -> Self {
        Self {
            d_alpha: false,
            ty,
            bit_depth,
            dim_shift,
            name: name.to_string(),
        }
    }

    pub fn write(&self, bw: &mut BitWriter) {
        bw.bool(self.d_alpha);
        if self.d_alpha {
            return;
        }
        bw.enum_(self.ty.code());
        self.bit_depth.write(bw);
        bw.u32([D::C(0), D::C(3), D::C(4), D::B(1, 3)], self.dim_shift);
        write_name(bw, &self.name);
        match &self.ty {
            EcType::Alpha { associated } => bw.bool(*associated),
            EcType::Spot { rgbs } => {
                for v in rgbs {
                    bw.f16_bits(*v);
                }
            }
            EcType::Cfa { channel } => {
                bw.u32([D::C(1), D::B(0, 2), D::B(3, 4), D::B(19, 8)], *channel)
            }
            _ => {}
        }
    }
}

pub fn write_name(bw: &mut BitWriter, name: &str) {
    let b = name.as_bytes();
    bw.u32([D::C(0), D::B(0, 4), D::B(16, 5), D::B(48, 10)], b.len() as u32);
    for &c in b {
        bw.write(8, c as u64);
    }
}

#[derive(Clone, Copy, Debug, PartialEq, Eq)]
pub struct Xy {
    pub x: i32,
    pub y: i32,
}

impl Xy {
    pub fn write(&self, bw: &mut BitWriter) {
        const DS: [D; 4] = [D::B(0, 19), D::B(524288, 19), D::B(1048576, 20), D::B(2097152, 21)];
        bw.u32(DS, pack_signed(self.x));
        bw.u32(DS, pack_signed(self.y));
    }
}

#[derive(Clone, Copy, Debug, PartialEq, Eq)]
pub enum WhitePoint {
    D65,
    Custom(Xy),
    E,
    Dci,
}

#[derive(Clone, Copy, Debug, PartialEq, Eq)]
pub enum Primaries {
    Srgb,
    Custom([Xy; 3]),
    Bt2100,
    P3,
}

#[derive(Clone, Copy, Debug, PartialEq, Eq)]
pub enum Tf {
    Gamma(u32),
    Bt709,
    Unknown,
    Linear,
    Srgb,
    Pq,
    Dci,
    Hlg,
}

impl Tf {
    pub fn code(&self) -> u32 {
        match self {
            Tf::Gamma(_) => 0,
            Tf::Bt709 => 1,
            Tf::Unknown => 2,
            Tf::Linear => 8,
            Tf::Srgb => 13,
            Tf::Pq => 16,
            Tf::Dci => 17,
            Tf::Hlg => 18,
        }
    }
}

#[derive(Clone, Debug, PartialEq, Eq)]
pub struct ColourEncoding {
    /// write the single all_default bit (then the rest must be sRGB defaults)
    pub all_default: bool,
    pub want_icc: bool,
    /// 0 RGB, 1 Grey, 2 XYB, 3 Unknown
    pub colour_space: u32,
    pub white_point: WhitePoint,
    pub primaries: Primaries,
    pub tf: Tf,
    /// 0 perceptual 1 relative 2 saturation 3 absolute
    pub rendering_intent: u32,
}

impl Default for ColourEncoding {
    fn default() -> Self {
        Self {
            all_default: true,
            want_icc: false,
            colour_space: 0,
            white_point: WhitePoint::D65,
            primaries: Primaries::Srgb,
            tf: Tf::Srgb,
            rendering_intent: 1,
        }
    }
}

impl ColourEncoding {
    pub fn srgb_explicit() -> Self {
        Self {
            all_default: false,
            ..Default::default()
        }
    }
    pub fn grey_srgb() -> Self {
        Self {
            all_default: false,
            colour_space: 1,
            ..Default::default()
        }
    }
    pub fn write(&self, bw: &mut BitWriter) {
        bw.bool(self.all_default);
        if self.all_default {
            return;
        }
        bw.bool(self.want_icc);
        bw.enum_(self.colour_space);
        if self.want_icc {
            return;
        }
        if self.colour_space != 2 {
            match self.white_point {
                WhitePoint::D65 => bw.enum_(1),
                WhitePoint::Custom(xy) => {
                    bw.enum_(2);
                    xy.write(bw);
                }
                WhitePoint::E => bw.enum_(10),
                WhitePoint::Dci => bw.enum_(11),
            }
        }
        if self.colour_space != 2 && self.colour_space != 1 {
            match self.primaries {
                Primaries::Srgb => bw.enum_(1),
                Primaries::Custom(p) => {
                    bw.enum_(2);
                    for xy in p {
                        xy.write(bw);
                    }
                }
                Primaries::Bt2100 => bw.enum_(9),
                Primaries::P3 => bw.enum_(11),
            }
        }
        match self.tf {
            Tf::Gamma(g) => {
                bw.bool(true);
                bw.write(24, g as u64);
            }
            t => {
                bw.bool(false);
                bw.enum_(t.code());
            }
        }
        bw.enum_(self.rendering_intent);
    }
}

#[derive(Clone, Debug, PartialEq, Eq)]
pub struct ToneMapping {
    pub all_default: bool,
    pub intensity_target: u16,
    pub min_nits: u16,
    pub relative_to_max_display: bool,
    pub linear_below: u16,
}

impl Default for ToneMapping {
    fn default() -> Self {
        Self {
            all_default: true,
            intensity_target: 0x5bf8, // 255.0
            min_nits: 0,
            relative_to_max_display: false,
            linear_below: 0,
        }
    }
}

impl ToneMapping {
    pub fn write(&self, bw: &mut BitWriter) {
        bw.bool(self.all_default);
        if !self.all_default {
            bw.f16_bits(self.intensity_target);
            bw.f16_bits(self.min_nits);
            bw.bool(self.relative_to_max_display);
            bw.f16_bits(self.linear_below);
        }
    }
}

/// Extensions: bitmask + per-extension payload bit lengths; payload bits are random junk.
#[derive(Clone, Debug, Default, PartialEq, Eq)]
pub struct Extensions {
    pub bits: u64,
    pub payload_bits: Vec<u64>,
    pub junk_seed: u64,
}

impl Extensions {
    pub fn write(&self, bw: &mut BitWriter) {
        bw.u64(self.bits);
        debug_assert_eq!(self.bits.count_ones() as usize, self.payload_bits.len());
        for &n in &self.payload_bits {
            bw.u64(n);
        }
        let mut r = Rng::new(self.junk_seed);
        for &n in &self.payload_bits {
            let mut left = n;
            while left > 0 {
                let k = left.min(57);
                bw.write(k as u32, r.next_u64());
                left -= k;
            }
        }
    }

    pub fn random(rng: &mut Rng) -> Self {
        if rng.chance(3, 4) {
            return Self::default();
        }
        let nb = rng.urange(1, 3);
        let mut bits = 0u64;
        for _ in 0..nb {
            bits |= 1u64 << rng.below(64);
        }
        let payload_bits = (0..bits.count_ones())
            .map(|_| match rng.below(4) {
                0 => 0,
                1 => rng.below(17),
                2 => rng.below(300),
                _ => rng.below(5000),
            })
            .collect();
        Self {
            bits,
            payload_bits,
            junk_seed: rng.next_u64(),
        }
    }
}

#[derive(Clone, Debug, PartialEq, Eq)]
pub struct OpsinInverse {
    pub all_default: bool,
    pub inv_mat: [u16; 9],
    pub opsin_bias: [u16; 3],
    pub quant_bias: [u16; 3],
    pub quant_bias_numerator: u16,
}

impl OpsinInverse {
    pub fn write(&self, bw: &mut BitWriter) {
        bw.bool(self.all_default);
        if !self.all_default {
            for v in self.inv_mat {
                bw.f16_bits(v);
            }
            for v in self.opsin_bias {
                bw.f16_bits(v);
            }
            for v in self.quant_bias {
                bw.f16_bits(v);
            }
            bw.f16_bits(self.quant_bias_numerator);
        }
    }
}

#[derive(Clone, Debug, PartialEq)]
pub struct ImageMetadata {
    pub all_default: bool,
    pub extra_fields: bool,
    pub orientation: u32,
    pub intrinsic_size: Option<SizeHeader>,
    pub preview: Option<PreviewHeader>,
    pub animation: Option<AnimationHeader>,
    pub bit_depth: BitDepth,
    pub modular_16bit_buffers: bool,
    pub ec_info: Vec<ExtraChannelInfo>,
    pub xyb_encoded: bool,
    pub colour_encoding: ColourEncoding,
    pub tone_mapping: ToneMapping,
    pub extensions: Extensions,
    pub default_m: bool,
    pub opsin_inverse: Option<OpsinInverse>,
    pub cw_mask: u32,
    pub up2: Option<Vec<u16>>,
    pub up4: Option<Vec<u16>>,
    pub up8: Option<Vec<u16>>,
}

impl Default for ImageMetadata {
    /// The state described by `all_default = 1` (XYB, 8-bit, sRGB, no extra channels).
    fn default() -> Self {
        Self {
            all_default: true,
            extra_fields: false,
            orientation: 1,
            intrinsic_size: None,
            preview: None,
            animation: None,
            bit_depth: BitDepth::default(),
            modular_16bit_buffers: true,
            ec_info: vec![],
            xyb_encoded: true,
            colour_encoding: ColourEncoding::default(),
            tone_mapping: ToneMapping::default(),
            extensions: Extensions::default(),
            default_m: true,
            opsin_inverse: None,
            cw_mask: 0,
            up2: None,
            up4: None,
            up8: None,
        }
    }
}

impl ImageMetadata {
    /// Non-XYB metadata with explicit fields (the common base for Modular test images).
    pub fn plain(bit_depth: BitDepth, grey: bool, ec_info: Vec<ExtraChannelInfo>) -> Self {
        Self {
            all_default: false,
            xyb_encoded: false,
            bit_depth,
            ec_info,
            colour_encoding: if grey {
                ColourEncoding::grey_srgb()
            } else {
                ColourEncoding::default()
            },
            ..Default::default()
        }
    }

    pub fn needs_extra_fields(&self) -> bool {
        self.orientation != 1
            || self.intrinsic_size.is_some()
            || self.preview.is_some()
            || self.animation.is_some()
            || !self.tone_mapping.all_default
    }

    pub fn write(&self, bw: &mut BitWriter) {
        bw.bool(self.all_default);
        if !self.all_default {
            bw.bool(self.extra_fields);
            if self.extra_fields {
                bw.write(3, (self.orientation - 1) as u64);
                bw.bool(self.intrinsic_size.is_some());
                if let Some(s) = &self.intrinsic_size {
                    s.write(bw);
                }
                bw.bool(self.preview.is_some());
                if let Some(p) = &self.preview {
                    p.write(bw);
                }
                bw.bool(self.animation.is_some());
                if let Some(a) = &self.animation {
                    a.write(bw);
                }
            } else {
                debug_assert!(!self.needs_extra_fields());
            }
            self.bit_depth.write(bw);
            bw.bool(self.modular_16bit_buffers);
            bw.u32(
                [D::C(0), D::C(1), D::B(2, 4), D::B(1, 12)],
                self.ec_info.len() as u32,
            );
            for e in &self.ec_info {
                e.write(bw);
            }
            bw.bool(self.xyb_encoded);
            self.colour_encoding.write(bw);
            if self.extra_fields {
                self.tone_mapping.write(bw);
            }
            self.extensions.write(bw);
        }
        bw.bool(self.default_m);
        if !self.default_m {
            if self.xyb_encoded {
                self.opsin_inverse.as_ref().expect("opsin").write(bw);
            }
            bw.write(3, self.cw_mask as u64);
            if self.cw_mask & 1 != 0 {
                for v in self.up2.as_ref().unwrap() {
                    bw.f16_bits(*v);
                }
            }
            if self.cw_mask & 2 != 0 {
                for v in self.up4.as_ref().unwrap() {
                    bw.f16_bits(*v);
                }
            }
            if self.cw_mask & 4 != 0 {
                for v in self.up8.as_ref().unwrap() {
                    bw.f16_bits(*v);
                }
            }
        }
    }

    pub fn num_extra(&self) -> usize {
        self.ec_info.len()
    }

    pub fn grayscale(&self) -> bool {
        self.colour_encoding.colour_space == 1
    }
}

#[derive(Clone, Debug, PartialEq)]
pub struct ImageHeader {
    pub size: SizeHeader,
    pub metadata: ImageMetadata,
}

impl ImageHeader {
    pub fn write(&self, bw: &mut BitWriter) {
        bw.write(16, 0x0aff);
        self.size.write(bw);
        self.metadata.write(bw);
    }
}

// ---------------------------------------------------------------------------------------------
// Frame header

#[derive(Clone, Copy, Debug, PartialEq, Eq)]
pub enum FrameType {
    Regular = 0,
    LfFrame = 1,
    ReferenceOnly = 2,
    SkipProgressive = 3,
}

impl FrameType {
    pub fn is_normal(&self) -> bool {
        matches!(self, FrameType::Regular | FrameType::SkipProgressive)
    }
}

#[derive(Clone, Copy, Debug, PartialEq, Eq)]
pub enum BlendMode {
    Replace = 0,
    Add = 1,
    Blend = 2,
    MulAdd = 3,
    Mul = 4,
}

#[derive(Clone, Debug, PartialEq, Eq)]
pub struct BlendingInfo {
    pub mode: BlendMode,
    pub alpha_channel: u32,
    pub clamp: bool,
    pub source: u32,
}

impl Default for BlendingInfo {
    fn default() -> Self {
        Self {
            mode: BlendMode::Replace,
            alpha_channel: 0,
            clamp: false,
            source: 0,
        }
    }
}

#[derive(Clone, Debug, PartialEq, Eq, Default)]
pub struct Passes {
    pub num_passes: u32,
    pub shift: Vec<u32>,
    pub downsample: Vec<u32>,
    pub last_pass: Vec<u32>,
}

impl Passes {
    pub fn single() -> Self {
        Self {
            num_passes: 1,
            ..Default::default()
        }
    }
    pub fn write(&self, bw: &mut BitWriter) {
        bw.u32([D::C(1), D::C(2), D::C(3), D::B(4, 3)], self.num_passes);
        if self.num_passes != 1 {
            bw.u32(
                [D::C(0), D::C(1), D::C(2), D::B(3, 1)],
                self.downsample.len() as u32,
            );
            assert_eq!(self.shift.len() as u32, self.num_passes - 1);
            for &s in &self.shift {
                bw.write(2, s as u64);
            }
            for &d in &self.downsample {
                bw.u32([D::C(1), D::C(2), D::C(4), D::C(8)], d);
            }
            for &l in &self.last_pass {
                bw.u32([D::C(0), D::C(1), D::C(2), D::B(0, 3)], l);
            }
        }
    }
}

#[derive(Clone, Debug, PartialEq)]
pub struct Gabor {
    pub enabled: bool,
    pub custom: Option<[u16; 6]>,
}

#[derive(Clone, Debug, PartialEq)]
pub struct Epf {
    pub iters: u32,
    pub sharp_lut: Option<[u16; 8]>,
    pub channel_scale: Option<([u16; 3], u32)>,
    /// (quant_mul [VarDCT only], pass0, pass2, border_sad_mul)
    pub sigma: Option<[u16; 4]>,
    pub sigma_for_modular: u16,
}

#[derive(Clone, Debug, PartialEq)]
pub struct RestorationFilter {
    pub all_default: bool,
    pub gab: Gabor,
    pub epf: Epf,
    pub extensions: Extensions,
}

impl Default for RestorationFilter {
    fn default() -> Self {
        Self {
            all_default: true,
            gab: Gabor {
                enabled: true,
                custom: None,
            },
            epf: Epf {
                iters: 2,
                sharp_lut: None,
                channel_scale: None,
                sigma: None,
                sigma_for_modular: 0x3c00,
            },
            extensions: Extensions::default(),
        }
    }
}

impl RestorationFilter {
    pub fn none() -> Self {
        Self {
            all_default: false,
            gab: Gabor {
                enabled: false,
                custom: None,
            },
            epf: Epf {
                iters: 0,
                sharp_lut: None,
                channel_scale: None,
                sigma: None,
                sigma_for_modular: 0x3c00,
            },
            extensions: Extensions::default(),
        }
    }

    pub fn write(&self, bw: &mut BitWriter, modular: bool) {
        bw.bool(self.all_default);
        if self.all_default {
            return;
        }
        bw.bool(self.gab.enabled);
        if self.gab.enabled {
            bw.bool(self.gab.custom.is_some());
            if let Some(w) = &self.gab.custom {
                for v in w {
                    bw.f16_bits(*v);
                }
            }
        }
        bw.write(2, self.epf.iters as u64);
        if self.epf.iters > 0 {
            if !modular {
                bw.bool(self.epf.sharp_lut.is_some());
                if let Some(l) = &self.epf.sharp_lut {
                    for v in l {
                        bw.f16_bits(*v);
                    }
                }
            }
            bw.bool(self.epf.channel_scale.is_some());
            if let Some((cs, ign)) = &self.epf.channel_scale {
                for v in cs {
                    bw.f16_bits(*v);
                }
                bw.write(32, *ign as u64);
            }
            bw.bool(self.epf.sigma.is_some());
            if let Some(s) = &self.epf.sigma {
                if !modular {
                    bw.f16_bits(s[0]);
                }
                bw.f16_bits(s[1]);
                bw.f16_bits(s[2]);
                bw.f16_bits(s[3]);
            }
            if modular {
                bw.f16_bits(self.epf.sigma_for_modular);
            }
        }
        self.extensions.write(bw);
    }
}

pub const FLAG_NOISE: u64 = 1;
pub const FLAG_PATCHES: u64 = 2;
pub const FLAG_SPLINES: u64 = 0x10;
pub const FLAG_USE_LF_FRAME: u64 = 0x20;
pub const FLAG_SKIP_ADAPTIVE_LF_SMOOTHING: u64 = 0x80;

#[derive(Clone, Debug, PartialEq)]
pub struct FrameHeader {
    pub all_default: bool,
    pub frame_type: FrameType,
    pub modular: bool,
    pub flags: u64,
    pub do_ycbcr: bool,
    pub jpeg_upsampling: [u32; 3],
    pub upsampling: u32,
    pub ec_upsampling: Vec<u32>,
    pub group_size_shift: u32,
    pub x_qm_scale: u32,
    pub b_qm_scale: u32,
    pub passes: Passes,
    pub lf_level: u32,
    pub have_crop: bool,
    pub x0: i32,
    pub y0: i32,
    pub width: u32,
    pub height: u32,
    pub blending_info: BlendingInfo,
    pub ec_blending_info: Vec<BlendingInfo>,
    pub duration: u32,
    pub timecode: u32,
    pub is_last: bool,
    pub save_as_reference: u32,
    pub save_before_ct: bool,
    pub name: String,
    pub restoration_filter: RestorationFilter,
    pub extensions: Extensions,
}

impl FrameHeader {
    /// A plain Modular regular frame covering the image (last frame).
    pub fn modular(ih: &ImageHeader) -> Self {
        Self {
            all_default: false,
            frame_type: FrameType::Regular,
            modular: true,
            flags: 0,
            do_ycbcr: false,
            jpeg_upsampling: [0; 3],
            upsampling: 1,
            ec_upsampling: vec![1; ih.metadata.ec_info.len()],
            group_size_shift: 1,
            x_qm_scale: 2,
            b_qm_scale: 2,
            passes: Passes::single(),
            lf_level: 0,
            have_crop: false,
            x0: 0,
            y0: 0,
            width: ih.size.width,
            height: ih.size.height,
            blending_info: BlendingInfo::default(),
            ec_blending_info: vec![BlendingInfo::default(); ih.metadata.ec_info.len()],
            duration: 0,
            timecode: 0,
            is_last: true,
            save_as_reference: 0,
            save_before_ct: false,
            name: String::new(),
            restoration_filter: RestorationFilter::none(),
            extensions: Extensions::default(),
        }
    }

    pub fn use_lf_frame(&self) -> bool {
        self.flags & FLAG_USE_LF_FRAME != 0
    }

    /// The frame covers the whole canvas (or has no crop).
    pub fn full_frame(&self, ih: &ImageHeader) -> bool {
        if !self.have_crop {
            return true;
        }
        self.x0 <= 0
            && self.y0 <= 0
            && self.x0 as i64 + self.width as i64 >= ih.size.width as i64
            && self.y0 as i64 + self.height as i64 >= ih.size.height as i64
    }

    pub fn resets_canvas(&self, ih: &ImageHeader) -> bool {
        self.blending_info.mode == BlendMode::Replace && self.full_frame(ih)
    }

    pub fn can_reference(&self) -> bool {
        !self.is_last
            && (self.duration == 0 || self.save_as_reference != 0)
            && self.frame_type != FrameType::LfFrame
    }

    /// Whether the `save_before_ct` bit is present in the stream.
    pub fn save_before_ct_coded(&self, ih: &ImageHeader) -> bool {
        !self.all_default
            && (self.frame_type == FrameType::ReferenceOnly
                || (self.frame_type.is_normal() && self.resets_canvas(ih) && self.can_reference()))
    }

    pub fn is_keyframe(&self) -> bool {
        self.frame_type.is_normal() && (self.is_last || self.duration != 0)
    }

    pub fn group_dim(&self) -> u32 {
        128 << self.group_size_shift
    }

    pub fn color_sample_size(&self) -> (u32, u32) {
        self.sample_size(self.upsampling)
    }

    pub fn sample_size(&self, upsampling: u32) -> (u32, u32) {
        let mut w = self.width.div_ceil(upsampling);
        let mut h = self.height.div_ceil(upsampling);
        if self.lf_level > 0 {
            let d = 1u32 << (3 * self.lf_level);
            w = w.div_ceil(d);
            h = h.div_ceil(d);
        }
        (w, h)
    }

    pub fn num_groups(&self) -> u32 {
        let (w, h) = self.color_sample_size();
        w.div_ceil(self.group_dim()) * h.div_ceil(self.group_dim())
    }

    pub fn num_lf_groups(&self) -> u32 {
        let (w, h) = self.color_sample_size();
        let d = self.group_dim() * 8;
        w.div_ceil(d) * h.div_ceil(d)
    }

    pub fn toc_entries(&self) -> u32 {
        if self.num_groups() == 1 && self.passes.num_passes == 1 {
            1
        } else {
            1 + self.num_lf_groups() + 1 + self.num_groups() * self.passes.num_passes
        }
    }

    pub fn encoded_color_channels(&self, ih: &ImageHeader) -> usize {
        if self.modular && !self.do_ycbcr && !ih.metadata.xyb_encoded && ih.metadata.grayscale() {
            1
        } else {
            3
        }
    }

    fn write_blending(
        &self,
        bw: &mut BitWriter,
        bi: &BlendingInfo,
        ih: &ImageHeader,
        is_ec: bool,
    ) {
        bw.u32([D::C(0), D::C(1), D::C(2), D::B(3, 2)], bi.mode as u32);
        let multi_extra = !ih.metadata.ec_info.is_empty();
        let uses_alpha = matches!(bi.mode, BlendMode::Blend | BlendMode::MulAdd);
        if multi_extra && uses_alpha {
            bw.u32([D::C(0), D::C(1), D::C(2), D::B(3, 3)], bi.alpha_channel);
        }
        if (multi_extra && uses_alpha) || bi.mode == BlendMode::Mul {
            bw.bool(bi.clamp);
        }
        // `source` is present unless the frame replaces the whole canvas. For the main blending
        // info this is unambiguous. For extra channels two readings exist (condition on the
        // channel's own mode vs. on the frame-level one); generators only emit frames where both
        // agree (see DESIGN.md section 6), which `ec_source_ambiguous` lets them test.
        let _ = is_ec;
        let own_replace_full = bi.mode == BlendMode::Replace && self.full_frame(ih);
        if !own_replace_full {
            bw.write(2, bi.source as u64);
        }
    }

    /// True if some extra-channel blending info would be laid out differently under the two
    /// readings of the `source` condition.
    pub fn ec_source_ambiguous(&self, ih: &ImageHeader) -> bool {
        if !self.full_frame(ih) {
            return false;
        }
        let main_replace = self.blending_info.mode == BlendMode::Replace;
        self.ec_blending_info
            .iter()
            .any(|e| (e.mode == BlendMode::Replace) != main_replace)
    }

    pub fn write(&self, bw: &mut BitWriter, ih: &ImageHeader) {
        let md = &ih.metadata;
        bw.bool(self.all_default);
        if self.all_default {
            return;
        }
        bw.write(2, self.frame_type as u64);
        bw.write(1, self.modular as u64);
        bw.u64(self.flags);
        if !md.xyb_encoded {
            bw.bool(self.do_ycbcr);
        }
        if self.do_ycbcr && !self.use_lf_frame() {
            for v in self.jpeg_upsampling {
                bw.write(2, v as u64);
            }
        }
        if !self.use_lf_frame() {
            bw.u32([D::C(1), D::C(2), D::C(4), D::C(8)], self.upsampling);
            for &u in &self.ec_upsampling {
                bw.u32([D::C(1), D::C(2), D::C(4), D::C(8)], u);
            }
        }
        if self.modular {
            bw.write(2, self.group_size_shift as u64);
        }
        if md.xyb_encoded && !self.modular {
            bw.write(3, self.x_qm_scale as u64);
            bw.write(3, self.b_qm_scale as u64);
        }
        if self.frame_type != FrameType::ReferenceOnly {
            self.passes.write(bw);
        }
        if self.frame_type == FrameType::LfFrame {
            bw.write(2, (self.lf_level - 1) as u64);
        } else {
            bw.bool(self.have_crop);
        }
        if self.have_crop {
            const DS: [D; 4] = [D::B(0, 8), D::B(256, 11), D::B(2304, 14), D::B(18688, 30)];
            if self.frame_type != FrameType::ReferenceOnly {
                bw.u32(DS, pack_signed(self.x0));
                bw.u32(DS, pack_signed(self.y0));
            }
            bw.u32(DS, self.width);
            bw.u32(DS, self.height);
        }
        if self.frame_type.is_normal() {
            self.write_blending(bw, &self.blending_info, ih, false);
            for e in &self.ec_blending_info {
                self.write_blending(bw, e, ih, true);
            }
            if let Some(a) = &md.animation {
                bw.u32([D::C(0), D::C(1), D::B(0, 8), D::B(0, 32)], self.duration);
                if a.have_timecodes {
                    bw.write(32, self.timecode as u64);
                }
            }
            bw.bool(self.is_last);
        }
        if self.frame_type != FrameType::LfFrame && !self.is_last {
            bw.write(2, self.save_as_reference as u64);
        }
        if self.save_before_ct_coded(ih) {
            bw.bool(self.save_before_ct);
        }
        write_name(bw, &self.name);
        self.restoration_filter.write(bw, self.modular);
        self.extensions.write(bw);
    }
}

// ---------------------------------------------------------------------------------------------
// TOC

pub const TOC_SIZE_DS: [D; 4] = [D::B(0, 10), D::B(1024, 14), D::B(17408, 22), D::B(4211712, 30)];

fn perm_context(x: u32) -> u32 {
    crate::bits::ceil_log2_plus1(x).min(7)
}

/// Reads for a Lehmer-coded permutation (`perm[i]` for i >= skip); `end_extra` trailing zero
/// Lehmer digits are kept (non-minimal `end`).
pub fn permutation_reads(perm: &[usize], skip: usize, end_extra: usize) -> Vec<Read> {
    let size = perm.len();
    let mut temp: Vec<usize> = (skip..size).collect();
    let mut lehmer: Vec<u32> = Vec::new();
    for &p in &perm[skip..] {
        let idx = temp.iter().position(|&t| t == p).unwrap();
        lehmer.push(idx as u32);
        temp.remove(idx);
    }
    let mut end = lehmer.len();
    while end > 0 && lehmer[end - 1] == 0 {
        end -= 1;
    }
    end = (end + end_extra).min(lehmer.len());
    let mut reads = vec![Read {
        ctx: perm_context(size as u32),
        value: end as u32,
    }];
    let mut prev = 0u32;
    for &l in &lehmer[..end] {
        reads.push(Read {
            ctx: perm_context(prev),
            value: l,
        });
        prev = l;
    }
    reads
}

/// Write a TOC. `sizes_bitstream_order[k]` = byte size of the k-th section as laid out in the
/// file; `permutation[i]` = position in the file of logical section i (None = identity, not
/// coded). Ends byte aligned.
pub fn write_toc(
    bw: &mut BitWriter,
    rng: &mut Rng,
    sizes_bitstream_order: &[u32],
    permutation: Option<&[usize]>,
) {
    match permutation {
        None => bw.bool(false),
        Some(p) => {
            bw.bool(true);
            let extra = if rng.chance(1, 4) { rng.urange(0, 3) } else { 0 };
            let reads = permutation_reads(p, 0, extra);
            let items = lits(&reads);
            let code = EntropyCode::build(rng, 8, &items, &BuildOpts::default());
            code.write_header(bw, rng);
            code.write_items(bw, &items);
        }
    }
    bw.zero_pad_to_byte();
    for &s in sizes_bitstream_order {
        bw.u32(TOC_SIZE_DS, s);
    }
    bw.zero_pad_to_byte();
}
